"""X05 - suite recorder: a pytest plugin that turns a test run into recorded executions.

    PYTHONPATH=<repo>:/verif  SUITE_REC_OUT=<file.ndjson>  python -m pytest -p harness.suite_recorder ...

Protocol (spec/SuiteTraces.tla is this plugin as a state machine; all its switches TRUE):
  * while a test item runs (setup, call, teardown) every call that TEST CODE makes on a
    dimensionless getter (get_q, get_CvoR, ... get_GoRT, and the reaction state / delta / act
    getters) of a thermodynamic object is OBSERVED when it returns normally: the object is
    registered (a strong reference is kept until the test ends) and the condition set of the
    call (its keyword arguments that differ from the declared defaults, minus pure selectors
    such as `verbose`, `rev`, `act`, `state`) is added to the observations of that object.  An
    array of temperatures counts as one condition set per element.  Calls made by library code
    (StatMech -> modes, Reaction -> species, Nasa.from_model -> model ...) are not observations,
    calls that raise are not observations, calls outside a test are not observations;
  * AFTER the test has finished (teardown included), observation is switched off and every
    (object, condition set) is re-evaluated once, in the order of first observation, with
    harness/lib_x05.py (which reuses the event builders of the C01 / C02 / C08 drivers); the
    events are written as NDJSON lines tagged with the test id;
  * then registry and observations are dropped.

Nothing in the library is patched: the calls are seen through sys.monitoring (PEP 669) local
events on the code objects of the getters, so pmutt's own introspection of its functions
(`fn.__code__.co_varnames`, inspect.signature) is undisturbed.

SUITE_REC_DEFECT=noclear|byobject|nested|noguard switches one design decision off (used only
by selftest/X05 to show that the replay of TLC behaviours notices a wrong recorder).
"""
import json
import os
import sys
import time

import pytest

GETTERS = ('q', 'CvoR', 'CpoR', 'UoRT', 'HoRT', 'SoR', 'FoRT', 'GoRT')
RXN_EXTRA = ('EoRT',)
# parameters that select WHAT is returned, not the conditions it is evaluated at
SELECTORS = {'self', 'verbose', 'state', 'rev', 'act', 'method_name', 'initial_state', 'final_state'}
MAX_T_ELEMENTS = 12
TOOL_ID = 4

DEFECT = os.environ.get('SUITE_REC_DEFECT', '')


def _target_classes():
    from pmutt.statmech import StatMech, EmptyMode, ConstantMode
    from pmutt.statmech import trans, vib, rot, elec, nucl
    from pmutt.empirical.nasa import Nasa, Nasa9
    from pmutt.empirical.shomate import Shomate
    from pmutt.reaction import Reaction, ChemkinReaction
    from pmutt.omkm.reaction import SurfaceReaction
    species = [StatMech, EmptyMode, ConstantMode, trans.FreeTrans, vib.HarmonicVib, vib.QRRHOVib,
               vib.EinsteinVib, vib.DebyeVib, rot.RigidRotor, elec.GroundStateElec, nucl.EmptyNucl,
               Nasa, Nasa9, Shomate]
    reactions = [Reaction, ChemkinReaction, SurfaceReaction]
    return species, reactions


class Recorder(object):
    def __init__(self, path):
        self.path = path
        self.f = open(path, 'w')
        self.cur = None             # current test id
        self.enabled = True
        self.reg = {}               # id(obj) -> [oid, obj]      (strong reference)
        self.obs = []               # [(id(obj), cid)] in order of first observation
        self.conds = {}             # (id(obj), key) -> (cid, kwargs)
        self.stack = []             # top-level getter frames not yet returned: (frame, obj, name, kwargs)
        self.codes = {}             # code -> ('getter' | 'init', defaults)
        self.lib_cache = {}         # code -> True if the code belongs to the library proper
        self.pkg = None
        self.n_tests = 0
        self.t_reeval = 0.0
        self.installed = False
        self.errors = []

    # ------------------------------------------------------------------ output
    def write(self, rec):
        self.f.write(json.dumps(rec, separators=(',', ':'), default=str))
        self.f.write('\n')

    def proto(self, ev, **kw):
        rec = {'k': 'proto', 'ev': ev, 'test': self.cur}
        rec.update(kw)
        self.write(rec)

    # ------------------------------------------------------------------ installation
    def install(self):
        import inspect
        import pmutt
        self.pkg = os.path.dirname(os.path.abspath(pmutt.__file__)) + os.sep
        self.tests_dir = self.pkg + 'tests' + os.sep
        species, reactions = _target_classes()
        self.classes = tuple(species + reactions)
        names = ['get_' + g for g in GETTERS]
        rnames = []
        for g in GETTERS + RXN_EXTRA:
            rnames += ['get_%s_state' % g, 'get_delta_%s' % g, 'get_%s_act' % g]
        mon = sys.monitoring
        mon.use_tool_id(TOOL_ID, 'x05_suite_recorder')
        E = mon.events
        for cls in species + reactions:
            for nm in (names if cls in species else rnames):
                fn = getattr(cls, nm, None)
                if fn is None or not hasattr(fn, '__code__'):
                    continue
                code = fn.__code__
                if code in self.codes:
                    continue
                defaults = {k: p.default for k, p in inspect.signature(fn).parameters.items()
                            if p.default is not p.empty}
                self.codes[code] = ('getter', defaults, nm)
                mon.set_local_events(TOOL_ID, code, E.PY_START | E.PY_RETURN)
            init = cls.__dict__.get('__init__')
            if init is not None and hasattr(init, '__code__') and init.__code__ not in self.codes:
                self.codes[init.__code__] = ('init', {}, '__init__')
                mon.set_local_events(TOOL_ID, init.__code__, E.PY_RETURN)
        mon.register_callback(TOOL_ID, E.PY_START, self.on_start)
        mon.register_callback(TOOL_ID, E.PY_RETURN, self.on_return)
        self.installed = True

    def uninstall(self):
        if self.installed:
            mon = sys.monitoring
            for code in self.codes:
                mon.set_local_events(TOOL_ID, code, 0)
            mon.register_callback(TOOL_ID, mon.events.PY_START, None)
            mon.register_callback(TOOL_ID, mon.events.PY_RETURN, None)
            mon.free_tool_id(TOOL_ID)
            self.installed = False
        self.write({'k': 'summary', 'tests': self.n_tests, 'reeval_s': round(self.t_reeval, 2),
                    'recorder_errors': self.errors[:20]})
        self.f.close()

    # ------------------------------------------------------------------ who is calling
    def is_library(self, code):
        r = self.lib_cache.get(code)
        if r is None:
            fn = code.co_filename
            r = fn.startswith(self.pkg) and not fn.startswith(self.tests_dir)
            self.lib_cache[code] = r
        return r

    def called_by_library(self, frame):
        f = frame.f_back
        while f is not None:
            if self.is_library(f.f_code):
                return True
            f = f.f_back
        return False

    # ------------------------------------------------------------------ monitoring callbacks
    def on_start(self, code, offset):
        # an exception escaping a monitoring callback would surface inside the test: never let one out
        try:
            self._on_start(code)
        except Exception as ex:                      # noqa
            self.errors.append('on_start: %s: %s' % (type(ex).__name__, ex))

    def on_return(self, code, offset, retval):
        try:
            self._on_return(code)
        except Exception as ex:                      # noqa
            self.errors.append('on_return: %s: %s' % (type(ex).__name__, ex))

    def _on_start(self, code):
        if self.cur is None or not self.enabled:
            return
        info = self.codes.get(code)
        if info is None or info[0] != 'getter':
            return
        frame = sys._getframe(2)
        if DEFECT != 'nested' and self.called_by_library(frame):
            return
        loc = frame.f_locals
        n = code.co_argcount + code.co_kwonlyargcount
        kw = {}
        for name in code.co_varnames[:n]:
            if name in loc:
                kw[name] = loc[name]
        flags = code.co_flags
        pos = n
        if flags & 0x04:                 # *args
            pos += 1
        if flags & 0x08:                 # **kwargs
            extra = loc.get(code.co_varnames[pos])
            if isinstance(extra, dict):
                for k, v in extra.items():
                    kw.setdefault(k, v)
        self.stack.append((frame, loc.get('self'), info, kw))

    def _on_return(self, code):
        info = self.codes.get(code)
        if info is None:
            return
        if info[0] == 'init':
            if self.cur is not None and self.enabled:
                obj = sys._getframe(2).f_locals.get('self')
                if obj is not None and isinstance(obj, self.classes):
                    self.register(obj, 'construct')
            return
        if not self.stack:
            return
        frame = sys._getframe(2)
        for i in range(len(self.stack) - 1, -1, -1):
            if self.stack[i][0] is frame:
                _, obj, inf, kw = self.stack[i]
                del self.stack[i:]           # anything above it raised
                if self.cur is not None and self.enabled and obj is not None:
                    self.observe(obj, inf, kw)
                return

    # ------------------------------------------------------------------ registry
    def register(self, obj, how):
        ent = self.reg.get(id(obj))
        if ent is None:
            ent = [len(self.reg) + 1, obj]
            self.reg[id(obj)] = ent
            self.proto('register', oid=ent[0], cls=type(obj).__name__, label=_label(obj), how=how)
        return ent

    def observe(self, obj, info, kw):
        _, defaults, name = info
        cond = {}
        for k, v in kw.items():
            if k in SELECTORS:
                continue
            if k in defaults and _same(v, defaults[k]):
                continue
            cond[k] = v
        variants = _expand(cond)
        if variants is None:
            self.proto('unsupported', cls=type(obj).__name__, getter=name,
                       keys=sorted(cond))
            return
        ent = self.register(obj, 'call')
        for c in variants:
            key = _canon(c)
            if DEFECT == 'byobject':
                if any(i == id(obj) for i, _ in self.obs):
                    continue
            k2 = (id(obj), key)
            if k2 in self.conds:
                continue
            cid = len(self.conds) + 1
            self.conds[k2] = (cid, c)
            self.obs.append(k2)
            self.proto('observe', oid=ent[0], cid=cid, getter=name, cond=_show(c))

    # ------------------------------------------------------------------ test boundaries
    def start(self, nodeid):
        self.cur = nodeid
        self.n_tests += 1
        self.stack = []
        self.proto('start')

    def end(self):
        from harness import lib_x05
        self.stack = []
        self.proto('end')
        if DEFECT != 'noguard':
            self.enabled = False
        t0 = time.time()
        try:
            for k2 in list(self.obs):
                oid, obj = self.reg[k2[0]]
                cid, cond = self.conds[k2]
                res = lib_x05.reevaluate(obj, cond, seed=cid)
                self.proto('reeval', oid=oid, cid=cid, cls=type(obj).__name__, label=_label(obj),
                           cond=_show(cond), n=len(res['events']), raised=res['raised'] is not None,
                           finite=res['finite'], detail=res['raised'] or '', skipped=res['skipped'])
                for spec, ev, tags in res['events']:
                    self.write({'k': 'ev', 'spec': spec, 'test': self.cur, 'oid': oid, 'cid': cid,
                                'cls': type(obj).__name__, 'tags': tags, 'e': ev})
        finally:
            self.t_reeval += time.time() - t0
            self.enabled = True
        self.proto('finish')
        if DEFECT != 'noclear':
            self.reg = {}
            self.obs = []
            self.conds = {}
        self.cur = None
        self.f.flush()


def _label(obj):
    name = getattr(obj, 'name', None)
    if isinstance(name, str):
        return name
    if hasattr(obj, 'reactants'):
        try:
            return str(obj.to_string())
        except Exception:
            return None
    return None


def _same(v, d):
    """is the passed value the declared default?"""
    import numpy as np
    if v is d:
        return True
    if isinstance(v, (bool, np.bool_)) or isinstance(d, (bool, np.bool_)):
        return isinstance(v, (bool, np.bool_)) and isinstance(d, (bool, np.bool_)) and bool(v) == bool(d)
    num = (int, float, np.integer, np.floating)
    if isinstance(v, num) and isinstance(d, num):
        return float(v) == float(d)
    if isinstance(v, str) and isinstance(d, str):
        return v == d
    return False


def _is_seq(v):
    import numpy as np
    return isinstance(v, (list, tuple)) or (isinstance(v, np.ndarray) and v.ndim >= 1)


def _expand(cond):
    """one condition set per temperature of an array; None if another argument is an array"""
    import numpy as np
    out = dict(cond)
    for k, v in cond.items():
        if isinstance(v, np.ndarray) and v.ndim == 0:
            out[k] = v.item()
    cond = out
    for k, v in cond.items():
        if k != 'T' and _is_seq(v):
            return None
        if isinstance(v, dict) and any(_is_seq(x) for x in v.values()):
            return None
    T = cond.get('T')
    if not _is_seq(T):
        return [cond]
    Ts = [t for t in np.asarray(T).ravel().tolist()]
    if len(Ts) > MAX_T_ELEMENTS:
        idx = sorted({int(round(i * (len(Ts) - 1) / (MAX_T_ELEMENTS - 1))) for i in range(MAX_T_ELEMENTS)})
        Ts = [Ts[i] for i in idx]
    res = []
    for t in Ts:
        c = dict(cond)
        c['T'] = t
        res.append(c)
    return res


def _canon(v):
    import numpy as np
    if isinstance(v, dict):
        return tuple(sorted((str(k), _canon(x)) for k, x in v.items()))
    if isinstance(v, (bool, str)) or v is None:
        return v
    if isinstance(v, (int, float, np.integer, np.floating)):
        return repr(float(v))
    if _is_seq(v):
        return tuple(_canon(x) for x in v)
    return ('obj', type(v).__name__, id(v))


def _show(v):
    import numpy as np
    if isinstance(v, dict):
        return {str(k): _show(x) for k, x in v.items()}
    if isinstance(v, (bool, str)) or v is None:
        return v
    if isinstance(v, (int, float, np.integer, np.floating)):
        return float(v)
    if _is_seq(v):
        return [_show(x) for x in v]
    return repr(v)


REC = None


def pytest_configure(config):
    global REC
    path = os.environ.get('SUITE_REC_OUT')
    if not path:
        raise pytest.UsageError('harness.suite_recorder needs SUITE_REC_OUT=<ndjson file>')
    REC = Recorder(path)
    REC.install()


def pytest_unconfigure(config):
    global REC
    if REC is not None:
        REC.uninstall()
        REC = None


@pytest.hookimpl(hookwrapper=True, tryfirst=True)
def pytest_runtest_protocol(item, nextitem):
    REC.start(item.nodeid)
    try:
        yield
    finally:
        REC.end()
