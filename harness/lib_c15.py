"""C15 helpers: the text literals of spec/ExcelTokens.tla (TLA+ has no string -> character
code conversion, so the literals are generated here and the driver checks at start-up that the
committed module is what this table generates), and the value projection shared by the driver
and the self-tests.

run  /venv/bin/python -m harness.lib_c15  to (re)write spec/ExcelTokens.tla
"""
import os

TOKENS = [
    # special tokens of the reader (pmutt.io.excel.read_excel)
    ('Unnamed', 'Unnamed'), ('element', 'element'), ('elements', 'elements'),
    ('formula', 'formula'), ('atoms', 'atoms'), ('statmech_model', 'statmech_model'),
    ('trans_model', 'trans_model'), ('vib_model', 'vib_model'), ('rot_model', 'rot_model'),
    ('elec_model', 'elec_model'), ('nucl_model', 'nucl_model'),
    ('vib_wavenumber', 'vib_wavenumber'), ('vib_outcar', 'vib_outcar'),
    ('rot_temperature', 'rot_temperature'), ('nasa', 'nasa'), ('a_low', 'a_low'),
    ('a_high', 'a_high'), ('list', 'list'), ('dict', 'dict'),
    # keys of the record
    ('vib_wavenumbers', 'vib_wavenumbers'), ('rot_temperatures', 'rot_temperatures'),
    ('model', 'model'), ('n_degrees', 'n_degrees'),
    # cell values naming models
    ('emptymode', 'emptymode'), ('idealgas', 'idealgas'), ('harmonic', 'harmonic'),
    ('electronic', 'electronic'), ('placeholder', 'placeholder'), ('constant', 'constant'),
    ('FreeTrans', 'FreeTrans'), ('HarmonicVib', 'HarmonicVib'), ('QRRHOVib', 'QRRHOVib'),
    ('EinsteinVib', 'EinsteinVib'), ('DebyeVib', 'DebyeVib'), ('RigidRotor', 'RigidRotor'),
    ('GroundStateElec', 'GroundStateElec'), ('LSR', 'LSR'), ('ExtendedLSR', 'ExtendedLSR'), ('EmptyNucl', 'EmptyNucl'),
    ('EmptyMode', 'EmptyMode'),
    # qualified class names (module + '.' + qualname of the class object)
    ('Q_StatMech', 'pmutt.statmech.StatMech'), ('Q_EmptyMode', 'pmutt.statmech.EmptyMode'),
    ('Q_ConstantMode', 'pmutt.statmech.ConstantMode'),
    ('Q_FreeTrans', 'pmutt.statmech.trans.FreeTrans'),
    ('Q_HarmonicVib', 'pmutt.statmech.vib.HarmonicVib'),
    ('Q_QRRHOVib', 'pmutt.statmech.vib.QRRHOVib'),
    ('Q_EinsteinVib', 'pmutt.statmech.vib.EinsteinVib'),
    ('Q_DebyeVib', 'pmutt.statmech.vib.DebyeVib'),
    ('Q_RigidRotor', 'pmutt.statmech.rot.RigidRotor'),
    ('Q_GroundStateElec', 'pmutt.statmech.elec.GroundStateElec'),
    ('Q_LSR', 'pmutt.statmech.lsr.LSR'), ('Q_ExtendedLSR', 'pmutt.statmech.lsr.ExtendedLSR'),
    ('Q_EmptyNucl', 'pmutt.statmech.nucl.EmptyNucl'),
    # header and cell texts used by the bounded configurations (MC_ExcelReader.tla)
    ('H_name', 'name'), ('H_A', 'A'), ('H_potentialenergy_pad', ' potentialenergy '), ('H_phase', 'phase'),
    ('H_element_O', 'element.O'), ('H_elements_H', 'elements.H'), ('H_element_Pt_pad', 'element.Pt '),
    ('H_list_sites', 'list.sites'), ('H_list_w_0', 'list.w.0'), ('H_list_w_1', 'list.w.1'), ('H_list_w_9', 'list.w.9'), ('H_list_w_10', 'list.w.10'),
    ('H_list_w_11', 'list.w.11'), ('H_list_w_29', 'list.w.29'), ('H_dict_misc_10', 'dict.misc.10'),
    ('H_dict_misc_a11', 'dict.misc.a11'),
    ('H_dict_misc_a', 'dict.misc.a'), ('H_dict_misc_b', 'dict.misc.b'),
    ('H_nasa_a_low_0', 'nasa.a_low.0'), ('H_nasa_a_low_6', 'nasa.a_low.6'),
    ('H_nasa_a_high_3', 'nasa.a_high.3'),
    ('V_IdealGas', 'IdealGas'), ('V_placeholder_pad', ' placeholder '), ('V_Harmonic', 'HARMONIC'),
    ('V_EmptyModeUpper', 'EMPTYMODE'),
    ('F_H2O', 'H2O'), ('F_CH3OH_pad', ' CH3OH'), ('F_PtCl12', 'PtCl12'), ('F_CO', 'CO'), ('F_CO_pad', ' CO '),
    # audit round: every documented header, parameters, cell types
    ('V_CO2', 'CO2'), ('V_C2H2', 'C2H2'), ('V_CH4', 'CH4'), ('V_H2', 'H2'), ('V_N2', 'N2'), ('V_O2', 'O2'),
    ('V_C2H6', 'C2H6'), ('V_at_rel', 'C2H6.xyz'), ('V_at_abs', '@/CH4.xyz'), ('V_at_pad', ' H2O '),
    ('V_oc_a', 'OUTCAR_a'), ('V_oc_b', '@/OUTCAR_b '), ('V_oc_b_key', '@/OUTCAR_b'),
    ('H_flag', 'flag'), ('H_when', 'when'), ('H_uni', '\xa0\u00e9nergie \u0394H\t'), ('H_x_1', 'x.1'),
    ('H_element_dash_O', 'element-O'), ('H_elements_dash_Pt', ' elements-Pt'),
    ('H_list_flags', 'list.flags'), ('H_dict_misc_flag', 'dict.misc.flag'),
    ('H_nasa_a_low_1', 'nasa.a_low.1'),
    ('H_nasa_a_low_2', 'nasa.a_low.2'),
    ('H_nasa_a_low_3', 'nasa.a_low.3'),
    ('H_nasa_a_low_4', 'nasa.a_low.4'),
    ('H_nasa_a_low_5', 'nasa.a_low.5'),
    ('H_nasa_a_high_0', 'nasa.a_high.0'),
    ('H_nasa_a_high_1', 'nasa.a_high.1'),
    ('H_nasa_a_high_2', 'nasa.a_high.2'),
    ('H_nasa_a_high_4', 'nasa.a_high.4'),
    ('H_nasa_a_high_5', 'nasa.a_high.5'),
    ('H_nasa_a_high_6', 'nasa.a_high.6'),
    ('H_vib_pad', 'vib_wavenumber '), ('H_vib_pad2', '\tvib_wavenumber'), ('H_rot_pad', ' rot_temperature'),
    ('H_list_sites_pad', ' list.sites'), ('H_list_sites_pad2', 'list.sites  '),
    # headers outside the documented forms (MC_ExcelReader_wide.cfg only)
    ('W_n_elements_extra', 'n_elements_extra'), ('W_reformulated', 'reformulated'),
    ('W_natoms', 'natoms'), ('W_nasa_note', 'nasa_note'), ('W_playlist_x', 'playlist.x'),
    ('W_list_vib_wavenumber_x', 'list.vib_wavenumber_x'), ('W_list_w_0_dup', 'list.w.0'),
    ('W_dict_a', 'dict.a'), ('W_vib_wavenumber_2', 'vib_wavenumber.2'),
    ('W_list_a_b_c', 'list.a.b.0'), ('W_dict_list_a_b', 'dict.list.a'),
    ('W_list_dict_a', 'list.dict.a'), ('W_element_list_O', 'list.element.O'),
]


def tokens_module():
    lines = ['----------------------------- MODULE ExcelTokens -----------------------------',
             '(* GENERATED by harness/lib_c15.py - text literals as character codes.  TLA+ has no  *)',
             '(* string -> code conversion; the driver checks this file against the generator.     *)',
             'T_dot == 46']
    for name, text in TOKENS:
        nm = name if name[:2] in ('Q_', 'H_', 'V_', 'F_', 'W_') else 'T_' + name
        lines.append('%s == <<%s>>   \\* %s' % (nm, ', '.join(str(ord(c)) for c in text), ascii(text)))
    lines.append('=============================================================================')
    return '\n'.join(lines) + '\n'


def tokens_path():
    return os.path.join(os.path.dirname(os.path.dirname(os.path.abspath(__file__))),
                        'spec', 'ExcelTokens.tla')


def tokens_current():
    try:
        with open(tokens_path()) as f:
            return f.read() == tokens_module()
    except OSError:
        return False


if __name__ == '__main__':
    with open(tokens_path(), 'w') as f:
        f.write(tokens_module())
    print('wrote', tokens_path())
