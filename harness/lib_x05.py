"""X05 - re-evaluation of one observed object at one condition set.

Produces events in the shapes that the EXISTING trace specifications judge:
  Trace_StatMech : "thermo" (c01.thermo_event), "verbose", the closed-form mode events (c01.mode_events)
  Trace_Poly     : "ghs", "deriv"
  Trace_Reaction : "quant" (c08.Recorder.quant)
The builders of the C01 / C08 drivers are imported, not copied; what is written here is the
mapping from a real object the suite built to their arguments, and the few events whose builders
are inline in those drivers (C01 "verbose", C02 "ghs" / "deriv": same fields, same sensors).

Quantifier (narrow readings, notes/X05.md):
  * StatMech with `references`: the references are documented to adjust HoRT only, so the
    identities that involve U (H - U, F = U - S) and the switch clause of the verbose vector are
    evaluated with use_references=False; G = H - S and the derivative relations are evaluated WITH
    the references as "ghs" / "deriv" events;
  * ConstantMode carries user-given constants (no identity is promised): not evaluated;
  * a condition set without T is evaluated at the library's default T0 = 298.15 K; without P at
    P0 = 1.01325 bar (the defaults of the getters);
  * the derivative stencil T(1 +- h), T(1 +- 2h) of an empirical polynomial must stay inside the
    polynomial segment that contains T; otherwise only "ghs" is emitted.
"""
import math
import random
import traceback

from harness.core import to_dec
from harness.drivers import c01, c02, c08

H_STEP = c02.H_STEP
P_RATIO = 2.5               # second pressure of the entropy-pressure clause

MODE_KIND = {'HarmonicVib': 'Harmonic', 'QRRHOVib': 'QRRHO', 'EinsteinVib': 'Einstein', 'DebyeVib': 'Debye',
             'FreeTrans': 'FreeTrans', 'GroundStateElec': 'GroundState', 'EmptyMode': 'Empty',
             'EmptyNucl': 'EmptyNucl'}
ROT_KIND = {'monatomic': 'RotMono', 'linear': 'RotLinear', 'nonlinear': 'RotNonlinear'}
SLOTS = ('trans', 'vib', 'rot', 'elec', 'nucl')


class NonFinite(Exception):
    pass


class Bound(object):
    """the object with the test's extra keywords bound: get_X(**kw) = obj.get_X(**extras, **kw),
    each getter receiving what its signature accepts (c01.call)"""
    def __init__(self, obj, extras):
        self._obj, self._extras = obj, extras

    def __getattr__(self, name):
        if not name.startswith('get_'):
            return getattr(self._obj, name)
        obj, extras = self._obj, self._extras

        def getter(**kw):
            args = dict(extras)
            args.update(kw)
            v = c01.call(obj, name, **args)
            if math.isnan(v) or math.isinf(v):
                raise NonFinite(name)
            return v
        return getter


def _f(x):
    x = float(x)
    if math.isnan(x) or math.isinf(x):
        raise NonFinite()
    return x


def mode_kind(mode):
    cn = type(mode).__name__
    if cn == 'RigidRotor':
        return ROT_KIND.get(mode.geometry)
    return MODE_KIND.get(cn)


def mode_params(kind, mode):
    """the parameter dictionary c01.mode_events reads, from the attributes of the real mode; None if the
    closed form of the specification does not cover this parameterisation"""
    import numpy as np
    if kind in ('Harmonic', 'QRRHO'):
        wn = [float(w) for w in np.atleast_1d(mode.vib_wavenumbers)]
        sub = mode.imaginary_substitute
        p = {'wn': wn, 'sub': None if sub is None else float(sub)}
        if kind == 'QRRHO':
            if mode.alpha != 4:
                return None
            p.update({'Bav': float(mode.Bav), 'v0': float(mode.v0)})
        return {'vib': p}
    if kind == 'Einstein':
        return {'vib': {'theta': float(mode.einstein_temperature), 'u': float(mode.interaction_energy)}}
    if kind == 'Debye':
        return {'vib': {'theta': float(mode.debye_temperature), 'u': float(mode.interaction_energy)}}
    if kind in ('RotMono', 'RotLinear', 'RotNonlinear'):
        ths = [] if mode.rot_temperatures is None else [float(t) for t in np.atleast_1d(mode.rot_temperatures)]
        need = {'RotMono': 0, 'RotLinear': 1, 'RotNonlinear': 3}[kind]
        if len(ths) < need or any(t <= 0 for t in ths[:need]):
            return None
        return {'rot': {'sigma': float(mode.symmetrynumber), 'thetas': ths[:need] if need else [0.0]}}
    if kind == 'FreeTrans':
        if mode.molecular_weight is None:
            return None
        return {'trans': {'n': int(mode.n_degrees), 'M': float(mode.molecular_weight)}}
    if kind == 'GroundState':
        return {'elec': {'E': float(mode.potentialenergy), 'spin': float(mode.spin)}}
    return None


def _slot_of(kind):
    if kind in ('Harmonic', 'QRRHO', 'Einstein', 'Debye'):
        return 'vib'
    if kind.startswith('Rot'):
        return 'rot'
    return {'FreeTrans': 'trans', 'GroundState': 'elec'}.get(kind)


def _split(cond):
    import pmutt.constants as c
    extras = {k: v for k, v in cond.items() if k not in ('T', 'P')}
    T = float(cond['T']) if cond.get('T') is not None else c.T0('K')
    P = float(cond['P']) if cond.get('P') is not None else c.P0('bar')
    return T, P, extras


def events_mode(mode, T, P, extras, out, skipped, with_closed=True):
    kind = mode_kind(mode)
    if kind is None:
        skipped.append('mode:%s' % type(mode).__name__)
        return None
    if kind in ('Empty', 'EmptyNucl'):
        out.append(('Trace_StatMech', c01.thermo_event(Bound(mode, extras), kind, False, T, P, P * P_RATIO), {'kind': kind}))
        return kind
    theta = float(mode.debye_temperature) if kind == 'Debye' else None
    tags = {'kind': kind}
    if kind == 'Debye':
        tags['vib'] = 'Debye'
    out.append(('Trace_StatMech',
                c01.thermo_event(Bound(mode, extras), kind, kind == 'FreeTrans', T, P, P * P_RATIO, theta), tags))
    if with_closed:
        p = mode_params(kind, mode)
        if p is None:
            skipped.append('closed_form:%s' % kind)
        else:
            for e in c01.mode_events(_slot_of(kind), kind, mode, p, T, P):
                out.append(('Trace_StatMech', e, tags))
    return kind


def _ghs(f, b, T, kw):
    return {'ev': 'ghs', 'f': f, 'G': to_dec(b.get_GoRT(T=T, **kw)), 'H': to_dec(b.get_HoRT(T=T, **kw)),
            'S': to_dec(b.get_SoR(T=T, **kw))}


def _deriv(f, b, T, kw):
    h = H_STEP
    Ts = [T * (1 - 2 * h), T * (1 - h), T * (1 + h), T * (1 + 2 * h)]
    return {'ev': 'deriv', 'f': f, 'T': to_dec(T), 'h': to_dec(h), 'Cp': to_dec(b.get_CpoR(T=T, **kw)),
            'Ts': [to_dec(x) for x in Ts], 'H': [to_dec(b.get_HoRT(T=x, **kw)) for x in Ts],
            'S': [to_dec(b.get_SoR(T=x, **kw)) for x in Ts]}


def events_statmech(sp, cond, out, skipped):
    T, P, extras = _split(cond)
    modes = {s: getattr(sp, s + '_model') for s in SLOTS}
    kinds = {s: mode_kind(m) for s, m in modes.items()}
    has_trans = type(modes['trans']).__name__ == 'FreeTrans'
    if any(type(m).__name__ in ('ConstantMode',) for m in modes.values()) or any(k is None for k in kinds.values()):
        skipped.append('statmech:modes=%s' % ','.join(type(m).__name__ for m in modes.values()))
        return
    refs = getattr(sp, 'references', None) is not None
    tags = {'kind': 'total', 'refs': refs}
    theta = None
    if kinds['vib'] == 'Debye':
        tags['vib'] = 'Debye'
        theta = float(modes['vib'].debye_temperature)
    ex = dict(extras)
    if refs:
        ex['use_references'] = False
    b = Bound(sp, ex)
    out.append(('Trace_StatMech', c01.thermo_event(b, 'total', has_trans, T, P, P * P_RATIO, theta), tags))
    if refs and extras.get('use_references', True):
        br = Bound(sp, extras)
        out.append(('Trace_Poly', _ghs('statmech+references', br, T, {'P': P}), tags))
        out.append(('Trace_Poly', _deriv('statmech+references', br, T, {'P': P}), tags))
    # the verbose vector (same fields as the C01 driver writes)
    kw = dict(ex)
    kw.update({'T': T, 'P': P})
    kwn = dict(kw)
    kwn['use_references'] = False
    kw.pop('verbose', None)
    for g, name in c01.GNAME.items():
        try:
            parts = [_f(x) for x in getattr(sp, name)(verbose=True, **kw)]
            tot = _f(getattr(sp, name)(verbose=False, **kw))
            norefs = _f(getattr(sp, name)(verbose=False, **kwn))
            direct = [_f(c01.call(modes[s], name, **kw)) for s in SLOTS]
        except NonFinite:
            if g == 'q':                  # documented: q_elec overflows for DFT energies unless ignored
                skipped.append('q_nonfinite')
                continue
            raise
        out.append(('Trace_StatMech', {'ev': 'verbose', 'g': g, 'tot': to_dec(tot), 'norefs': to_dec(norefs),
                                       'parts': [to_dec(x) for x in parts],
                                       'direct': [to_dec(x) for x in direct]},
                    dict(tags, g=g, S_elements=bool(extras.get('S_elements')))))
    for s in SLOTS:
        if kinds[s] in ('Empty', 'EmptyNucl'):
            continue
        events_mode(modes[s], T, P, {}, out, skipped)


def _segment(obj, T):
    """(lo, hi) of the polynomial segment that evaluates T, or None when T is outside the species' range"""
    cn = type(obj).__name__
    if cn == 'Nasa':
        T_mid = obj.T_mid[0] if isinstance(obj.T_mid, list) else obj.T_mid
        if T < obj.T_low or T > obj.T_high:
            return None
        return (obj.T_low, math.nextafter(T_mid, -math.inf)) if T < T_mid else (T_mid, obj.T_high)
    if cn == 'Nasa9':
        for n in obj.nasas:
            if n.T_low <= T <= n.T_high:
                return (n.T_low, n.T_high)
        return None
    if T < obj.T_low or T > obj.T_high:
        return None
    return (obj.T_low, obj.T_high)


def events_poly(obj, cond, out, skipped):
    T, _, _ = _split(cond)
    extras = {k: v for k, v in cond.items() if k != 'T'}
    f = {'Nasa': 'nasa7', 'Nasa9': 'nasa9', 'Shomate': 'shomate'}[type(obj).__name__]
    b = Bound(obj, {})
    tags = {'kind': f}
    out.append(('Trace_Poly', _ghs(f, b, T, extras), tags))
    seg = _segment(obj, T)
    h = H_STEP
    if seg is None or T * (1 - 2 * h) < seg[0] or T * (1 + 2 * h) > seg[1]:
        skipped.append('deriv:stencil_leaves_segment')
        return
    out.append(('Trace_Poly', _deriv(f, b, T, extras), tags))


def _own_getter(sp, name):
    """the species' class defines the getter (the placeholders of _ModelBase - q = 1, Cv = 0, ... -
    take no conditions and are not evaluations of the species)"""
    fn = getattr(type(sp), name, None)
    return fn is not None and not getattr(fn, '__qualname__', '').startswith('_ModelBase.')


def events_reaction(rxn, cond, out, skipped, seed):
    cls = type(rxn).__name__
    if cls not in c08.CLASSES:
        skipped.append('reaction_class:%s' % cls)
        return
    ts = rxn.transition_state or []
    tss = rxn.transition_state_stoich or []
    sides = {'r': list(zip(rxn.reactants, rxn.reactants_stoich)),
             'p': list(zip(rxn.products, rxn.products_stoich)),
             't': list(zip(ts, tss))}
    species = [sp for s in sides for sp, _ in sides[s]]
    if any(not isinstance(getattr(sp, 'name', None), str) for sp in species):
        skipped.append('reaction:unnamed_species')
        return
    cond = dict(cond)
    zpe = cond.pop('include_ZPE', None)
    glob = {k: v for k, v in cond.items() if not (k.endswith('_kwargs') and isinstance(v, dict))}
    blocks = [(k[:-len('_kwargs')], dict(v)) for k, v in cond.items() if k.endswith('_kwargs') and isinstance(v, dict)]
    kw = dict(cond)
    bkeys = [k for k, v in kw.items() if k.endswith('_kwargs') and isinstance(v, dict)]
    rec = c08.Recorder(rxn, cls, sides, glob, blocks, kw, bkeys, random.Random(seed))
    bep = any(type(sp).__name__ == 'BEP' for sp in species)
    cand = ['H', 'S', 'G'] if bep else ['q'] + c08.SUM_Q
    qs = [q for q in cand if all(_own_getter(sp, 'get_' + c08.DIMLESS[q]) for sp in species)]
    quarter = all(abs(4 * nu - round(4 * nu)) < 1e-12 and nu > 0 for s in sides for _, nu in sides[s])
    tags = {'kind': 'reaction', 'cls': cls}
    for q in qs:
        # get_q_act / get_EoRT_state default include_ZPE to False, the species' get_q to True (documented
        # signatures): the partition-function family is compared with the flag passed explicitly, as C08 does
        variants = [{}]
        if q == 'q':
            variants = [{'include_ZPE': bool(zpe)}] if zpe is not None else [{'include_ZPE': False}, {'include_ZPE': True}]
        elif q == 'E' and zpe is not None:
            variants = [{'include_ZPE': bool(zpe)}]
        for opts in variants:
            try:
                e = rec.quant(q, opts=opts, with_sp=(q != 'q' or quarter))
            except c08.NonFinite:
                skipped.append('nonfinite:%s' % q)
                continue
            out.append(('Trace_Reaction', e, dict(tags, q=q)))


def reevaluate(obj, cond, seed=0):
    """-> {'events': [(spec module, event, tags)], 'raised': None | text, 'finite': bool, 'skipped': [...]}"""
    import warnings
    out, skipped = [], []
    res = {'events': out, 'raised': None, 'finite': True, 'skipped': skipped}
    cn = type(obj).__name__
    try:
        with warnings.catch_warnings():
            warnings.simplefilter('ignore')
            if cn == 'StatMech':
                events_statmech(obj, cond, out, skipped)
            elif cn in ('Nasa', 'Nasa9', 'Shomate'):
                events_poly(obj, cond, out, skipped)
            elif hasattr(obj, 'reactants') and hasattr(obj, 'get_delta_quantity'):
                events_reaction(obj, cond, out, skipped, seed)
            elif cn == 'ConstantMode':
                skipped.append('ConstantMode')
            else:
                T, P, extras = _split(cond)
                events_mode(obj, T, P, extras, out, skipped)
    except (NonFinite, c08.NonFinite) as ex:
        res['finite'] = False
        res['raised'] = None
        skipped.append('nonfinite:%s' % ex)
    except ValueError as ex:
        if 'non-finite' in str(ex):
            res['finite'] = False
            skipped.append('nonfinite')
        else:
            tb = traceback.format_exc().strip().splitlines()
            res['raised'] = '%s: %s | %s' % (type(ex).__name__, ex, ' | '.join(x.strip() for x in tb[-6:]))
    except Exception as ex:                                   # the library (or the mapping) raised
        tb = traceback.format_exc().strip().splitlines()
        res['raised'] = '%s: %s | %s' % (type(ex).__name__, ex, ' | '.join(x.strip() for x in tb[-6:]))
    return res
