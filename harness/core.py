"""Common machinery for the TLA+-based checks of pMuTT.

Every check is: (D) a TLC run of a design model, (S->C) TLC-generated
cases/behaviours replayed into the real library, (C->S) NDJSON traces recorded
from the real library and judged by a TLA+ trace specification.  This module
holds what is shared: running TLC, number projection (float -> Dec), sharded
trace validation with total verdicts, known-finding filtering, replay files,
evidence files and exit codes.

Exit codes: 0 property held (possibly with KNOWN-FINDING lines), 1 violation
(VIOLATION lines printed), 2 machinery failure (never a VIOLATION line).
"""
import argparse
import concurrent.futures as cf
import hashlib
import json
import math
import os
import re
import shutil
import subprocess
import sys
import tempfile
import time

VERIF = os.path.dirname(os.path.dirname(os.path.abspath(__file__)))
OUT = os.environ.get('VERIF_OUT', VERIF)      # where evidence/ and replays/ are written
SPEC = os.path.join(VERIF, 'spec')
REPO = os.environ.get('VERIF_REPO', '/repo')
TLA_JAR = '/opt/veriftools/tla/tla2tools.jar'
TLA_CP = TLA_JAR + ':/opt/veriftools/tla/CommunityModules-deps.jar'
NCPU = min(16, os.cpu_count() or 4)


class MachineryError(Exception):
    """Something in the verification machinery itself failed (exit 2)."""


# --------------------------------------------------------------------------
# number projection
# --------------------------------------------------------------------------
def to_dec(x):
    """IEEE double -> [m, e], the correctly rounded 9-significant-digit decimal."""
    x = float(x)
    if x == 0.0:
        return [0, 0]
    if math.isnan(x) or math.isinf(x):
        raise ValueError('non-finite value has no Dec projection')
    s = '%.8e' % x
    mant, exp = s.split('e')
    m = int(mant.replace('.', ''))
    return [m, int(exp) - 8]


def to_dec_exact(x):
    """Exact decimal for values that fit 9 digits (integers, dyadic fractions)."""
    from decimal import Decimal
    d = Decimal(x) if not isinstance(x, float) else Decimal(repr(x))
    sign, digits, exp = d.as_tuple()
    m = int(''.join(map(str, digits)))
    while m and m % 10 == 0:
        m //= 10
        exp += 1
    if abs(m) >= 10 ** 9:
        raise ValueError('not exactly representable in 9 digits: %r' % (x,))
    return [-m if sign else m, exp if m else 0]


def to_dec2(x):
    """IEEE double -> [hi, lo, e]: 17 significant digits as two limbs
    value = (hi * 10^8 + lo) * 10^e with |hi| < 10^9, 0 <= lo < 10^8 (sign on both)."""
    x = float(x)
    if x == 0.0:
        return [0, 0, 0]
    if math.isnan(x) or math.isinf(x):
        raise ValueError('non-finite value has no Dec2 projection')
    s = '%.16e' % abs(x)
    mant, exp = s.split('e')
    digs = mant.replace('.', '')            # 17 digits
    hi, lo = int(digs[:9]), int(digs[9:])
    sg = -1 if x < 0 else 1
    return [sg * hi, sg * lo, int(exp) - 16]


def finite(x):
    try:
        x = float(x)
    except Exception:
        return False
    return not (math.isnan(x) or math.isinf(x))


def text_codes(s):
    """str -> list of character codes (the Text.tla representation)."""
    return [ord(ch) for ch in s]


# --------------------------------------------------------------------------
# TLC
# --------------------------------------------------------------------------
class TlcResult:
    def __init__(self, rc, out, wall):
        self.rc = rc
        self.out = out
        self.wall = wall
        self.states = self.distinct = 0
        m = re.search(r'(\d+) states generated, (\d+) distinct states found', out)
        if m:
            self.states = int(m.group(1))
            self.distinct = int(m.group(2))
        m = re.search(r'The depth of the complete state graph search is (\d+)', out)
        self.depth = int(m.group(1)) if m else 0
        self.ok = (rc == 0 and 'Model checking completed. No error has been found' in out)
        self.violated = None
        m = re.search(r'Invariant (\S+) is violated', out)
        if m:
            self.violated = m.group(1)
        m = re.search(r'Action property (\S+) is violated', out)
        if m:
            self.violated = m.group(1)

    def prints(self):
        """TLA+ values printed with PrintT, one per top-level <<...>> (bracket matched)."""
        return extract_printed(self.out)


def extract_printed(out):
    vals = []
    i = 0
    n = len(out)
    pat = re.compile(r'<<\s*"')
    while i < n:
        m = pat.search(out, i)
        if not m:
            break
        j = m.start()
        depth = 0
        k = j
        instr = False
        while k < n:
            c = out[k]
            if instr:
                if c == '\\':
                    k += 1
                elif c == '"':
                    instr = False
            elif c == '"':
                instr = True
            elif out.startswith('<<', k):
                depth += 1
                k += 1
            elif out.startswith('>>', k):
                depth -= 1
                k += 1
                if depth == 0:
                    break
            k += 1
        vals.append(out[j:k + 1])
        i = k + 1
    return vals


def tagged(pv, tag):
    return re.match(r'<<\s*"%s"' % tag, pv) is not None


_TOK = re.compile(r'\s*(<<|>>|\{|\}|\[|\]|\|->|,|"(?:[^"\\]|\\.)*"|-?\d+|TRUE|FALSE|[A-Za-z_][A-Za-z0-9_]*|:>|@@|\(|\))')


def parse_tla(s):
    """Parse a printed TLA+ value (tuples, sets, records, strings, ints, booleans,
    functions written with :> and @@) into Python (list, frozenset->list, dict, ...)."""
    toks = _TOK.findall(s)
    pos = [0]

    def peek():
        return toks[pos[0]] if pos[0] < len(toks) else None

    def nxt():
        t = toks[pos[0]]
        pos[0] += 1
        return t

    def value():
        v = atom()
        # function literal  a :> b @@ c :> d
        if peek() == ':>':
            d = {}
            while True:
                nxt()
                d[_key(v)] = atom()
                if peek() == '@@':
                    nxt()
                    v = atom()
                    if peek() != ':>':
                        raise MachineryError('bad function literal')
                else:
                    break
            return d
        return v

    def atom():
        t = nxt()
        if t == '<<':
            out = []
            while peek() != '>>':
                out.append(value())
                if peek() == ',':
                    nxt()
            nxt()
            return out
        if t == '{':
            out = []
            while peek() != '}':
                out.append(value())
                if peek() == ',':
                    nxt()
            nxt()
            return out
        if t == '[':
            d = {}
            while peek() != ']':
                k = nxt()
                if nxt() != '|->':
                    raise MachineryError('bad record in TLC output')
                d[k] = value()
                if peek() == ',':
                    nxt()
            nxt()
            return d
        if t == '(':
            v = value()
            if nxt() != ')':
                raise MachineryError('bad parenthesis in TLC output')
            return v
        if t.startswith('"'):
            return bytes(t[1:-1], 'utf-8').decode('unicode_escape')
        if t == 'TRUE':
            return True
        if t == 'FALSE':
            return False
        if re.fullmatch(r'-?\d+', t):
            return int(t)
        return t

    return value()


def _key(v):
    return v if isinstance(v, (str, int)) else json.dumps(v)


def run_tlc(module, cfg=None, env=None, workers=None, cwd=None, timeout=1800,
            extra=(), metadir=None, deque=False):
    """Run TLC on spec/<module>.tla with spec/<cfg>.cfg.  Returns TlcResult."""
    cwd = cwd or SPEC
    tmp = metadir or tempfile.mkdtemp(prefix='tlcmeta_')
    cmd = ['java', '-XX:+UseParallelGC' if (workers or 1) > 1 else '-XX:+UseSerialGC', '-Xss16m', '-Xmx6g', '-XX:TieredStopAtLevel=4']
    if deque:
        cmd.append('-Dtlc2.tool.queue.IStateQueue=StateDeque')
    cmd += ['-cp', TLA_CP, 'tlc2.TLC', '-metadir', tmp, '-noGenerateSpecTE',
            '-workers', str(workers or 1)]
    if cfg:
        cmd += ['-config', cfg if cfg.endswith('.cfg') else cfg + '.cfg']
    cmd += list(extra)
    cmd.append(module)
    e = dict(os.environ)
    e.pop('JAVA_TOOL_OPTIONS', None)
    if env:
        e.update({k: str(v) for k, v in env.items()})
    t0 = time.time()
    try:
        p = subprocess.run(cmd, cwd=cwd, env=e, stdout=subprocess.PIPE,
                           stderr=subprocess.STDOUT, timeout=timeout, text=True)
        out, rc = p.stdout, p.returncode
    except subprocess.TimeoutExpired as ex:
        out = (ex.stdout or b'').decode() if isinstance(ex.stdout, bytes) else (ex.stdout or '')
        out += '\nTLC TIMEOUT'
        rc = 124
    finally:
        if not metadir:
            shutil.rmtree(tmp, ignore_errors=True)
    return TlcResult(rc, out, time.time() - t0)


def tlc_cases(module, cfg, env=None, timeout=600):
    """Run a constant-level case generator (ASSUME JsonSerialize(IOEnv.OUT_FILE, ...))
    and return the parsed JSON."""
    fd, path = tempfile.mkstemp(prefix='cases_', suffix='.json')
    os.close(fd)
    try:
        e = dict(env or {})
        e['OUT_FILE'] = path
        r = run_tlc(module, cfg, env=e, timeout=timeout)
        if r.rc != 0 or os.path.getsize(path) == 0:
            raise MachineryError('case generation failed for %s:\n%s' % (module, r.out[-3000:]))
        with open(path) as f:
            return json.load(f), r
    finally:
        if os.path.exists(path):
            os.unlink(path)


def _validate_shard(args):
    module, cfg, lines, timeout, extra_env = args
    d = tempfile.mkdtemp(prefix='trace_')
    try:
        path = os.path.join(d, 'trace.ndjson')
        with open(path, 'w') as f:
            for ln in lines:
                f.write(json.dumps(ln, separators=(',', ':')))
                f.write('\n')
        env = {'TRACE_FILE': path}
        env.update(extra_env or {})
        r = run_tlc(module, cfg, env=env, workers=1, timeout=timeout,
                    metadir=os.path.join(d, 'meta'))
        return r.rc, r.out, r.wall, r.states, r.distinct
    finally:
        shutil.rmtree(d, ignore_errors=True)


def validate_traces(module, cfg, traces, shards=None, timeout=3000, extra_env=None):
    """traces: list of (tid, [event dicts]).  Every event gets 'tid' added.
    The trace spec must print  <<"FAILS", {<<tid, line, clause>>...}>>  and
    <<"CONSUMED", n>> from its POSTCONDITION.  Returns (fails, stats) where fails
    is a list of (tid, index_in_trace, clause)."""
    shards = shards or NCPU
    traces = [t for t in traces if t[1]]
    if not traces:
        return [], {'lines': 0, 'tlc_states': 0, 'shards': 0}
    buckets = [[] for _ in range(min(shards, len(traces)))]
    sizes = [0] * len(buckets)
    for tid, evs in sorted(traces, key=lambda t: -len(t[1])):
        b = sizes.index(min(sizes))
        buckets[b].append((tid, evs))
        sizes[b] += len(evs)
    jobs = []
    index = []                       # per shard: line -> (tid, idx)
    for b in buckets:
        lines, idx = [], []
        for tid, evs in b:
            for i, ev in enumerate(evs):
                ln = dict(ev)
                ln['tid'] = tid
                lines.append(ln)
                idx.append((tid, i))
        jobs.append((module, cfg, lines, timeout, extra_env))
        index.append(idx)
    fails = []
    total_states = 0
    with cf.ThreadPoolExecutor(max_workers=len(jobs)) as ex:
        results = list(ex.map(_validate_shard, jobs))
    for (rc, out, wall, states, distinct), idx in zip(results, index):
        consumed = None
        got_fails = False
        for pv in extract_printed(out):
            if tagged(pv, 'CONSUMED'):
                consumed = parse_tla(pv)[1]
            elif tagged(pv, 'FAILS'):
                got_fails = True
                for (tid, line, clause) in parse_tla(pv)[1]:
                    t, i = idx[line - 1]
                    fails.append((t, i, clause))
        if consumed != len(idx) or not got_fails or rc != 0:
            raise MachineryError(
                'trace spec %s did not consume its trace (consumed=%r of %d, rc=%d):\n%s'
                % (module, consumed, len(idx), rc, out[-4000:]))
        total_states += distinct
    return fails, {'lines': sum(len(i) for i in index), 'tlc_states': total_states,
                   'shards': len(jobs)}


# --------------------------------------------------------------------------
# known findings
# --------------------------------------------------------------------------
def load_findings(prop):
    """Known findings of one property: findings.d/<prop>.json (canonical, committed,
    never written at run time).  known_findings.json is the merged view for readers."""
    path = os.path.join(VERIF, 'findings.d', prop + '.json')
    if not os.path.exists(path):
        return []
    with open(path) as f:
        data = json.load(f)
    return [e for e in data.get('findings', []) if e.get('property') == prop]


def finding_matches(entry, clause, tags):
    cl = entry.get('clauses')
    if cl and clause not in cl:
        return False
    for k, v in entry.get('match', {}).items():
        tv = tags.get(k)
        if isinstance(v, list):
            if tv not in v:
                return False
        elif tv != v:
            return False
    return True


# --------------------------------------------------------------------------
# check context
# --------------------------------------------------------------------------
class Ctx:
    def __init__(self, prop, tier, seed, level):
        self.prop = prop
        self.tier = tier
        self.seed = seed
        self.level = level
        self.t0 = time.time()
        self.violations = []          # dicts: clause, tags, case, detail
        self.coverage = {'evaluations': 0, 'distinct_nontrivial': 0, 'rule': '',
                         'samples': []}
        self.assumptions = []
        self.distinct = set()
        self.notes = []
        self.replay_case = None

    @property
    def quick(self):
        return self.tier == 'quick'

    def pick(self, quick, thorough):
        return quick if self.quick else thorough

    # ---- coverage accounting
    def count(self, key, n=1):
        self.coverage[key] = self.coverage.get(key, 0) + n

    def evaluated(self, n=1):
        self.coverage['evaluations'] += n

    def nontrivial(self, signature):
        """Register a non-trivial case by a hashable signature (distinct counted)."""
        self.distinct.add(signature if isinstance(signature, str) else json.dumps(signature, sort_keys=True, default=str))

    def sample(self, obj, cap=6):
        if len(self.coverage['samples']) < cap:
            self.coverage['samples'].append(obj)

    def model(self, module, cfg, workers=NCPU, expect_ok=True, env=None, timeout=1800, extra=()):
        """Run a design model exhaustively; a violated invariant of the *design* is a
        machinery failure (the spec, not the code, is wrong) unless expect_ok is False."""
        r = run_tlc(module, cfg, workers=workers, env=env, timeout=timeout, extra=extra)
        self.count('states', r.distinct)
        self.count('transitions', r.states)
        self.coverage.setdefault('models', []).append(
            {'module': module, 'cfg': cfg, 'distinct_states': r.distinct,
             'states_generated': r.states, 'depth': r.depth, 'ok': r.ok,
             'violated': r.violated, 'wall_s': round(r.wall, 1)})
        if expect_ok and not r.ok:
            raise MachineryError('design model %s/%s failed:\n%s' % (module, cfg, r.out[-4000:]))
        return r

    def violation(self, clause, case, tags=None, detail=None):
        self.violations.append({'clause': clause, 'case': case, 'tags': tags or {},
                                'detail': detail})

    def assume(self, text):
        if text not in self.assumptions:
            self.assumptions.append(text)


def _hash(obj):
    return hashlib.sha1(json.dumps(obj, sort_keys=True, default=str).encode()).hexdigest()[:12]


def finish(ctx):
    """Filter violations through known findings, write replays + evidence, print, exit."""
    findings = load_findings(ctx.prop)
    known_hit = {}
    real = []
    for v in ctx.violations:
        hit = None
        for e in findings:
            if finding_matches(e, v['clause'], v['tags']):
                hit = e
                break
        if hit is not None:
            known_hit.setdefault(hit['id'], [hit, 0])[1] += 1
        else:
            real.append(v)
    for fid, (e, n) in sorted(known_hit.items()):
        print('KNOWN-FINDING: property=%s %s [%s; %d observation(s) this run]'
              % (ctx.prop, e['what'], fid, n))
    if ctx.replay_case is None:
        # a listed finding this tier / seed did not reach is still announced (one line per listed finding); it
        # suppresses nothing, since suppression is by matching an observed violation only
        for e in findings:
            if e['id'] not in known_hit:
                print('KNOWN-FINDING: property=%s %s [%s; 0 observation(s) this run - not reached by this tier/seed]'
                      % (ctx.prop, e['what'], e['id']))
    rdir = os.path.join(OUT, 'replays', ctx.prop)
    seen = set()
    printed = 0
    by_clause = {}
    for v in real:
        k = (v['clause'], json.dumps(v['tags'], sort_keys=True, default=str))
        by_clause[k] = by_clause.get(k, 0) + 1
    for (cl, tg), n in sorted(by_clause.items()):
        print('  violated clause %s tags=%s: %d observation(s)' % (cl, tg, n))
    for v in real:
        key = _hash({'clause': v['clause'], 'case': v['case']})
        if key in seen:
            continue
        seen.add(key)
        if printed >= int(os.environ.get('VERIF_MAX_REPLAYS', '25')):
            continue
        os.makedirs(rdir, exist_ok=True)
        path = os.path.join(rdir, '%s_%s.json' % (v['clause'], key))
        with open(path, 'w') as f:
            json.dump({'property': ctx.prop, 'clause': v['clause'], 'tags': v['tags'],
                       'case': v['case'], 'detail': v['detail'], 'seed': ctx.seed,
                       'tier': ctx.tier}, f, indent=1, default=str)
        print('VIOLATION property=%s replay=%s clause=%s' % (ctx.prop, path, v['clause']))
        printed += 1
    cov = ctx.coverage
    cov['distinct_nontrivial'] = len(ctx.distinct)
    cov['violating_cases'] = len(seen)
    cov['known_finding_observations'] = {k: n for k, (e, n) in known_hit.items()}
    if ctx.notes:
        cov['notes'] = ctx.notes
    ev = {'property_id': ctx.prop, 'tier': ctx.tier, 'seed': ctx.seed, 'level': ctx.level,
          'coverage': cov, 'assumptions': ctx.assumptions,
          'wall_s': round(time.time() - ctx.t0, 2), 'violations': len(seen)}
    if ctx.replay_case is not None:
        # a replay re-runs one recorded case; it must not overwrite the evidence of a full run
        epath = os.path.join(OUT, 'replays', ctx.prop, 'last_replay_evidence.json')
    elif ctx.prop.startswith('X'):
        # extra specification modules are not registered properties: keep their evidence apart
        epath = os.path.join(OUT, 'evidence', 'extra', ctx.prop + '.json')
    else:
        epath = os.path.join(OUT, 'evidence', ctx.prop + '.json')
    os.makedirs(os.path.dirname(epath), exist_ok=True)
    with open(epath, 'w') as f:
        json.dump(ev, f, indent=1, default=str)
    print('%s %s: evaluations=%d distinct_nontrivial=%d violations=%d known=%d wall=%.1fs'
          % (ctx.prop, ctx.tier, cov['evaluations'], cov['distinct_nontrivial'], len(seen),
             sum(n for _, n in known_hit.values()), time.time() - ctx.t0))
    return 1 if seen else 0


def pmap(fn, items, workers=NCPU, chunksize=None):
    """Process-parallel map (fork) preserving order."""
    items = list(items)
    if not items:
        return []
    if workers <= 1 or len(items) < 4:
        return [fn(x) for x in items]
    import multiprocessing as mp
    ctxm = mp.get_context('fork')
    with ctxm.Pool(workers) as pool:
        return pool.map(fn, items, chunksize or max(1, len(items) // (workers * 4)))


def main(prop, level, run, replay=None):
    ap = argparse.ArgumentParser()
    ap.add_argument('--tier', default=os.environ.get('VERIF_TIER', 'quick'),
                    choices=['quick', 'thorough'])
    ap.add_argument('--seed', type=int, default=int(os.environ.get('VERIF_SEED', '0') or 0))
    ap.add_argument('--replay')
    a = ap.parse_args(sys.argv[2:])
    ctx = Ctx(prop, a.tier, a.seed, level)
    if REPO not in sys.path:
        sys.path.insert(0, REPO)
    try:
        if a.replay:
            with open(a.replay) as f:
                ctx.replay_case = json.load(f)
        run(ctx)
        rc = finish(ctx)
    except MachineryError as ex:
        print('MACHINERY-FAILURE property=%s: %s' % (prop, ex))
        rc = 2
    sys.exit(rc)
