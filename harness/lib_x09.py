"""X09 (Observers) - registry of pMuTT classes seen as objects with mutators and evaluations.

A `Binding` says, for one class: what its content is (a dict of constructor arguments), how a FRESH
object is built from a content, which documented mutators exist (attribute assignment + class specific
edits), which documented evaluations exist (method, fixed keyword arguments, the name of the argument the
caller owns, whether arrays are documented).  Nothing here judges anything: the module builds objects,
calls them and projects what it saw (digests of arguments / state, lists of floats).
"""
import copy
import hashlib
import json
import math
import os

KINDS = ('farr', 'iarr', 'list', 'sint', 'sflt')
INT_KINDS = ('iarr', 'sint')
ARRAY_KINDS = ('farr', 'iarr', 'list')
T_INT = [300, 400, 500, 650, 800, 1000, 1200, 1500]          # whole numbers: every dtype can carry them
T_FLT = [298.15, 345.678, 512.5, 777.7, 950.25, 1333.3]
MODEL_T = {1: 300, 2: 500, 3: 800}                             # temperature ids of Observers.tla


# ----------------------------------------------------------------------------------------------------
# projections
# ----------------------------------------------------------------------------------------------------
def snap(x, _seen=None):
    """Canonical JSON-able picture of a value: by value AND by type / dtype."""
    import numpy as np
    if _seen is None:
        _seen = set()
    if isinstance(x, np.ndarray):
        return ['nd', str(x.dtype), list(x.shape), [snap(v, _seen) for v in x.ravel().tolist()]]
    if isinstance(x, np.generic):
        return [type(x).__name__, repr(x.item())]
    if x is None or isinstance(x, (bool, int, float, str)):
        return [type(x).__name__, repr(x)]
    if isinstance(x, (list, tuple)):
        return [type(x).__name__, [snap(v, _seen) for v in x]]
    if isinstance(x, dict):
        return ['dict', sorted([[repr(k), snap(v, _seen)] for k, v in x.items()], key=lambda kv: kv[0])]
    if id(x) in _seen:
        return ['cycle', type(x).__name__]
    _seen = _seen | {id(x)}
    if type(x).__name__ == 'Atoms':
        return ['Atoms', snap(x.get_chemical_symbols(), _seen), snap(x.get_positions(), _seen)]
    if type(x).__name__ == 'module':
        return ['module', x.__name__]
    if hasattr(x, 'to_dict'):
        try:
            return ['obj', type(x).__name__, snap(x.to_dict(), _seen)]
        except Exception as ex:                               # noqa
            return ['obj', type(x).__name__, 'to_dict raises %s' % type(ex).__name__,
                    snap(dict(vars(x)), _seen)]
    if hasattr(x, '__dict__'):
        return ['obj', type(x).__name__, snap(dict(vars(x)), _seen)]
    return [type(x).__name__, repr(x)]


def digest(x):
    return hashlib.sha1(json.dumps(snap(x), sort_keys=True).encode()).hexdigest()[:16]


def _loose(s):
    """snap() picture with numeric scalars compared the way `==` compares them (1 == 1.0 == np.float64(1))."""
    if isinstance(s, list):
        if len(s) == 2 and isinstance(s[0], str) and isinstance(s[1], str) and \
                s[0] in ('int', 'float', 'float64', 'float32', 'int64', 'int32', 'int16', 'int8', 'uint8'):
            try:
                return ['num', repr(float(s[1]))]
            except ValueError:
                return s
        return [_loose(v) for v in s]
    return s


def state_digest(x):
    """Digest of an object's observable content: `to_dict() == to_dict()` semantics (containers and array
    dtypes strict, numeric scalars by value)."""
    return hashlib.sha1(json.dumps(_loose(snap(x)), sort_keys=True).encode()).hexdigest()[:16]


def flat(res):
    """Result of an evaluation -> list of floats (row-major)."""
    import numpy as np
    if isinstance(res, tuple) and hasattr(res, '_fields'):            # Equilibrium's namedtuple
        res = [res.moles, res.mole_frac, res.P, res.T]
    if isinstance(res, (tuple, list)):
        out = []
        for r in res:
            out.extend(flat(r))
        return out
    return [float(v) for v in np.atleast_1d(np.asarray(res, dtype=float)).ravel()]


def make_arg(kind, temps, flavour=0):
    import numpy as np
    if kind == 'farr':
        return np.array([float(t) for t in temps], dtype=np.float64)
    if kind == 'iarr':
        return np.array([int(t) for t in temps], dtype=(np.int64, np.int32)[flavour % 2])
    if kind == 'list':
        return [float(t) for t in temps]
    if kind == 'sint':
        return (int(temps[0]), np.int64(int(temps[0])))[flavour % 2]
    if kind == 'sflt':
        return (float(temps[0]), np.float64(temps[0]))[flavour % 2]
    raise ValueError(kind)


def as_float_arg(arg, kind):
    """The same temperatures with a float dtype."""
    import numpy as np
    if kind == 'iarr':
        return arg.astype(np.float64)
    if kind == 'sint':
        return float(arg)
    return copy.deepcopy(arg)


def elements_of(arg, kind):
    return [float(v) for v in arg] if kind in ARRAY_KINDS else [float(arg)]


# ----------------------------------------------------------------------------------------------------
# bindings
# ----------------------------------------------------------------------------------------------------
class Ev:
    """One documented evaluation: obj.<method>(**fixed, <argname>=<caller's object>)."""

    def __init__(self, method, fixed=None, argname='T', array=False, per_element=None, pool_int=None,
                 pool_flt=None, array_only=False, tag=None):
        self.method = method
        self.fixed = fixed or {}
        self.argname = argname
        self.array = array                    # the docstring accepts arrays for <argname>
        self.per_element = per_element        # (result, n) -> list of n lists of floats
        self.pool_int = pool_int or T_INT
        self.pool_flt = pool_flt or T_FLT
        self.array_only = array_only          # the argument is documented as an iterable only
        self.tag = tag or (method + ''.join('|%s=%s' % (k, _short(v)) for k, v in sorted(self.fixed.items())))


def _short(v):
    if isinstance(v, (str, int, float, bool)) or v is None:
        return str(v)
    return digest(v)[:6]


class Binding:
    def __init__(self, name, base, attrs, build, evals, ops=None, slots=None, stale=None, state=None,
                 target=None, scale=None, call=None):
        self.name = name
        self.base = base            # content of the initial object: dict
        self.attrs = attrs          # attr -> list of >= 2 candidate values (assignment mutator)
        self.build = build          # content -> fresh object
        self.evals = evals
        self.ops = ops or {}        # name -> (gen(rnd, content) -> args, real(obj, *args), model(content, *args))
        self.slots = slots or list(attrs)[:3]
        self.stale = stale          # None | dict(keyed=[attr], methods=[tags]) : follows the stale-cache shape
        self.state = state or (lambda obj: obj.to_dict())
        self.target = target or (lambda obj: obj)     # the object whose methods are called
        self.scale = scale          # (content, ev, kw, t) -> magnitude of the largest term | None
        self.call = call            # (obj, ev, kw) -> result, when not obj.<method>(**kw)


def _rt(name):
    return lambda obj, v: setattr(obj, name, copy.deepcopy(v))


REGISTRY = {}


class Holder:
    def __init__(self, **kw):
        self.__dict__.update(kw)


def _register(b):
    REGISTRY[b.name] = b
    return b


def _dimensional(fixed_extra=None, array=True):
    fx = fixed_extra or {}
    evs = []
    for m in ('get_CpoR', 'get_HoRT', 'get_SoR', 'get_GoRT'):
        evs.append(Ev(m, dict(fx), array=array))
    evs.append(Ev('get_Cp', dict(fx, units='J/mol/K'), array=array))
    evs.append(Ev('get_H', dict(fx, units='kJ/mol'), array=array))
    evs.append(Ev('get_S', dict(fx, units='cal/mol/K'), array=array))
    evs.append(Ev('get_G', dict(fx, units='eV'), array=array))
    return evs


O2_LOW = [3.78245636E+00, -2.99673416E-03, 9.84730201E-06, -9.68129509E-09, 3.24372837E-12,
          -1.06394356E+03, 3.65767573E+00]
O2_HIGH = [3.28253784E+00, 1.48308754E-03, -7.57966669E-07, 2.09470555E-10, -2.16717794E-14,
           -1.08845772E+03, 5.45323129E+00]
H2_SHO = [33.066178, -11.363417, 11.432816, -2.772874, -0.158558, -9.980797, 172.707974, 0.]
N9_A = [[2.2e4, -3.4e2, 5.0, -1.0e-3, 1.0e-6, -1.0e-10, 1.0e-14, -1.0e3, 3.0],
        [2.0e4, -3.0e2, 4.5, -1.1e-3, 1.1e-6, -1.1e-10, 1.1e-14, -1.1e3, 3.5],
        [1.8e4, -2.5e2, 4.0, -1.2e-3, 1.2e-6, -1.2e-10, 1.2e-14, -1.2e3, 4.0]]


def _perturb(vec, k):
    return [v * (1.0 + 0.03125 * k * ((i % 3) + 1)) for i, v in enumerate(vec)]


def _poly_scale(content, ev, kw, t):
    """Largest term that enters a polynomial value (dimensionless), times the unit factor."""
    from pmutt import constants as c
    cls = content['_cls']
    t = float(t)
    if cls == 'Nasa':
        a = content['a_low'] if t < content['T_mid'] else content['a_high']
        terms = [abs(a[0]) * max(1., abs(math.log(t)))] + [abs(a[k]) * t ** k for k in range(1, 5)] + \
                [abs(a[5]) / t, abs(a[6])]
    elif cls == 'Nasa9':
        terms = [1.]
        for lo, hi, a in content['nasas']:
            terms += [abs(a[0]) / t ** 2, abs(a[1]) * max(1., abs(math.log(t))) / t,
                      abs(a[2]) * max(1., abs(math.log(t)))] + \
                     [abs(a[k + 2]) * t ** k for k in range(1, 5)] + [abs(a[7]) / t, abs(a[8])]
    else:
        a = content['a']
        x = t / 1000.
        R = c.R(content['units'])
        terms = [abs(a[0]) * max(1., abs(math.log(x)), 1. / x), abs(a[1]) * x, abs(a[2]) * x ** 2,
                 abs(a[3]) * x ** 3, abs(a[4]) / x ** 2, abs(a[5]) / x, abs(a[6]), abs(a[7]) / x]
        terms = [v / R * 1000. / min(t, 1000.) for v in terms]
    big = max(terms) * 4.
    units = kw.get('units')
    from pmutt import _get_R_adj
    if ev.method in ('get_Cp', 'get_S'):
        big *= _get_R_adj(units=units, elements=content['elements'])
    elif ev.method in ('get_H', 'get_G'):
        big *= _get_R_adj(units=units + '/K', elements=content['elements']) * t
    return big


def _mk_registry():
    import numpy as np
    from pmutt import constants as c
    from pmutt.empirical.nasa import Nasa, Nasa9, SingleNasa9
    from pmutt.empirical.shomate import Shomate
    from pmutt.empirical.references import Reference, References
    from pmutt.statmech import StatMech, ConstantMode, trans, vib, rot, elec
    from pmutt.mixture.cov import PiecewiseCovEffect
    from pmutt.eos import IdealGasEOS, vanDerWaalsEOS
    from pmutt.reaction import Reaction
    from pmutt.reaction.bep import BEP
    from pmutt.reaction.phasediagram import PhaseDiagram

    dc = copy.deepcopy

    # ------------------------------------------------------------------ empirical polynomials
    def b_nasa(cn):
        return Nasa(name='O2', T_low=200., T_mid=dc(cn['T_mid']), T_high=3500., elements=dc(cn['elements']),
                    phase='G', a_low=np.array(cn['a_low']), a_high=np.array(cn['a_high']))
    _register(Binding(
        'Nasa', {'_cls': 'Nasa', 'a_low': O2_LOW, 'a_high': O2_HIGH, 'T_mid': 1000., 'elements': {'O': 2}},
        {'a_low': [np.array(_perturb(O2_LOW, k)) for k in range(4)],
         'a_high': [np.array(_perturb(O2_HIGH, k)) for k in range(4)],
         'T_mid': [1000., 600., 1300.],
         'elements': [{'O': 2}, {'O': 3}, {'O': 1, 'H': 2}]},
        b_nasa,
        _dimensional() + _dimensional({'P': 2.5})[2:4] + [Ev('get_SoR', {'S_elements': True}, array=True),
                                                           Ev('get_H', {'units': 'kJ/g'}, array=True)],
        scale=_poly_scale))

    def b_nasa9(cn):
        return Nasa9(name='X', phase='G', elements=dc(cn['elements']),
                     nasas=[SingleNasa9(T_low=lo, T_high=hi, a=np.array(a)) for lo, hi, a in cn['nasas']])

    def n9(k, three=False):
        if three:
            return [[200., 700., _perturb(N9_A[0], k)], [700., 1100., _perturb(N9_A[1], k)],
                    [1100., 6000., _perturb(N9_A[2], k)]]
        return [[200., 1000., _perturb(N9_A[0], k)], [1000., 6000., _perturb(N9_A[1], k)]]

    def set_nasas(obj, v):
        obj.nasas = [SingleNasa9(T_low=lo, T_high=hi, a=np.array(a)) for lo, hi, a in v]
    _register(Binding(
        'Nasa9', {'_cls': 'Nasa9', 'nasas': n9(0), 'elements': {'O': 2}},
        {'nasas': [n9(0), n9(1, True), n9(2), n9(3, True)], 'elements': [{'O': 2}, {'O': 3}, {'N': 2}]},
        b_nasa9,
        _dimensional() + _dimensional({'P': 0.5})[2:4] + [Ev('get_S', {'units': 'J/g/K'}, array=True)],
        ops={'set:nasas': (lambda rnd, cn: (rnd.choice([n9(0), n9(1, True), n9(2), n9(3, True)]),),
                           set_nasas, lambda cn, v: cn.__setitem__('nasas', dc(v)))},
        slots=['nasas', 'elements'], scale=_poly_scale))

    def b_sho(cn):
        return Shomate(name='H2', T_low=250., T_high=3000., phase='G', elements=dc(cn['elements']),
                       a=np.array(cn['a']), units=cn['units'])
    _register(Binding(
        'Shomate', {'_cls': 'Shomate', 'a': H2_SHO, 'units': 'J/mol/K', 'elements': {'H': 2}},
        {'a': [np.array(_perturb(H2_SHO, k)) for k in range(4)],
         'units': ['J/mol/K', 'cal/mol/K', 'kJ/mol/K'],
         'elements': [{'H': 2}, {'H': 4, 'C': 1}]},
        b_sho,
        _dimensional() + _dimensional({'P': 3.})[2:4] + [Ev('get_SoR', {'S_elements': True}, array=True)],
        scale=_poly_scale))

    # ------------------------------------------------------------------ statistical-mechanical modes
    def mode_evals(obj, extra=None, skip=()):
        import inspect
        evs = []
        extra = extra or {}
        for m in ('get_q', 'get_CvoR', 'get_CpoR', 'get_UoRT', 'get_HoRT', 'get_SoR', 'get_FoRT', 'get_GoRT'):
            if m in skip:
                continue
            pars = inspect.signature(getattr(obj, m)).parameters
            fx = {k: v for k, v in extra.items() if k in pars}
            evs.append(Ev(m, fx, argname='T' if 'T' in pars else None))
        evs += [Ev('get_Cp', {'units': 'J/mol/K'}), Ev('get_H', {'units': 'kJ/mol'}),
                Ev('get_S', {'units': 'cal/mol/K'}), Ev('get_G', {'units': 'eV'})]
        return evs

    WN = [np.array([3825.4, -150., 1582.4]), np.array([420.5, 95.25, -60.]), np.array([2100, -35, 612, 88]),
          np.array([-310.5, 1250.75])]
    SUBS = [None, 60., 75.5, 12.25]

    def b_hvib(cn):
        return vib.HarmonicVib(vib_wavenumbers=dc(cn['vib_wavenumbers']),
                               imaginary_substitute=cn['imaginary_substitute'])
    hv = b_hvib({'vib_wavenumbers': WN[0], 'imaginary_substitute': None})
    _register(Binding(
        'HarmonicVib', {'vib_wavenumbers': WN[0], 'imaginary_substitute': None},
        {'vib_wavenumbers': WN, 'imaginary_substitute': SUBS},
        b_hvib, mode_evals(hv) + [Ev('get_q', {'include_ZPE': False})],
        slots=['vib_wavenumbers', 'imaginary_substitute'],
        stale={'keyed': ['vib_wavenumbers'], 'methods': ['get_SoR', 'get_GoRT']}))

    def b_qvib(cn):
        return vib.QRRHOVib(vib_wavenumbers=dc(cn['vib_wavenumbers']), Bav=cn['Bav'], v0=cn['v0'],
                            alpha=cn['alpha'], imaginary_substitute=cn['imaginary_substitute'])
    qbase = {'vib_wavenumbers': WN[0], 'imaginary_substitute': None, 'v0': 100., 'Bav': 1.e-44, 'alpha': 4}
    qv = b_qvib(qbase)
    _register(Binding(
        'QRRHOVib', qbase,
        {'vib_wavenumbers': WN, 'imaginary_substitute': SUBS, 'v0': [100., 150., 80.5],
         'Bav': [1.e-44, 2.e-44, 5.e-45], 'alpha': [4, 3, 5]},
        b_qvib, mode_evals(qv, skip=('get_q',)),
        slots=['vib_wavenumbers', 'imaginary_substitute', 'v0'],
        stale={'keyed': ['vib_wavenumbers'], 'methods': ['get_SoR', 'get_GoRT']}))

    def b_evib(cn):
        return vib.EinsteinVib(einstein_temperature=cn['einstein_temperature'],
                               interaction_energy=cn['interaction_energy'])
    ev0 = {'einstein_temperature': 400., 'interaction_energy': -0.1}
    _register(Binding('EinsteinVib', ev0,
                      {'einstein_temperature': [400., 515.5, 233.], 'interaction_energy': [-0.1, 0.25, 0.]},
                      b_evib, mode_evals(b_evib(ev0))))

    def b_dvib(cn):
        return vib.DebyeVib(debye_temperature=cn['debye_temperature'], interaction_energy=cn['interaction_energy'])
    dv0 = {'debye_temperature': 400., 'interaction_energy': -0.1}
    _register(Binding('DebyeVib', dv0,
                      {'debye_temperature': [400., 515.5, 233.], 'interaction_energy': [-0.1, 0.25, 0.]},
                      b_dvib, mode_evals(b_dvib(dv0))))

    def b_rot(cn):
        return rot.RigidRotor(symmetrynumber=cn['symmetrynumber'], rot_temperatures=dc(cn['rot_temperatures']),
                              geometry=cn['geometry'])
    r0 = {'symmetrynumber': 2, 'rot_temperatures': [40.1, 20.9, 13.4], 'geometry': 'nonlinear'}
    _register(Binding('RigidRotor', r0,
                      {'symmetrynumber': [2, 3, 1], 'rot_temperatures': [[40.1, 20.9, 13.4], [9.5, 8.25, 4.125]],
                       'geometry': ['nonlinear', 'nonlinear']},
                      b_rot, mode_evals(b_rot(r0))))

    def b_trans(cn):
        return trans.FreeTrans(n_degrees=cn['n_degrees'], molecular_weight=cn['molecular_weight'])
    t0 = {'n_degrees': 3, 'molecular_weight': 18.}
    _register(Binding('FreeTrans', t0, {'n_degrees': [3, 2, 1], 'molecular_weight': [18., 28.01, 44.]},
                      b_trans, mode_evals(b_trans(t0), extra={'P': 2.})))

    def b_elec(cn):
        return elec.GroundStateElec(potentialenergy=cn['potentialenergy'], spin=cn['spin'], D0=cn['D0'])
    e0 = {'potentialenergy': -1.25, 'spin': 0., 'D0': None}
    _register(Binding('GroundStateElec', e0,
                      {'potentialenergy': [-1.25, -0.5, 0.75], 'spin': [0., 1., 0.5], 'D0': [None, 0.05, 0.125]},
                      b_elec, mode_evals(b_elec(e0)) + [Ev('get_q', {'ignore_q_elec': False})]))

    def b_const(cn):
        return ConstantMode(**{k: v for k, v in cn.items()})
    c0 = {'q': 2., 'Cv': 1.e-4, 'Cp': 2.e-4, 'U': 0.3, 'H': 0.4, 'S': 5.e-4, 'F': 0.6, 'G': 0.7}
    _register(Binding('ConstantMode', c0,
                      {'H': [0.4, 0.9, -0.2], 'S': [5.e-4, 1.e-4], 'G': [0.7, 0.1], 'q': [2., 3.], 'U': [0.3, 0.2]},
                      b_const, mode_evals(b_const(c0))))

    # ------------------------------------------------------------------ StatMech
    def sm_modes():
        return {'trans_model': [trans.FreeTrans(n_degrees=3, molecular_weight=18.),
                                trans.FreeTrans(n_degrees=3, molecular_weight=44.)],
                'vib_model': [vib.HarmonicVib(vib_wavenumbers=[3825.4, 3710.2, 1582.4]),
                              vib.HarmonicVib(vib_wavenumbers=[2349.1, 1333.3, 667.2, 667.2]),
                              vib.EinsteinVib(einstein_temperature=450.)],
                'rot_model': [rot.RigidRotor(symmetrynumber=2, rot_temperatures=[40.1, 20.9, 13.4],
                                             geometry='nonlinear'),
                              rot.RigidRotor(symmetrynumber=2, rot_temperatures=[0.561], geometry='linear')],
                'elec_model': [elec.GroundStateElec(potentialenergy=-14.22, spin=0.),
                               elec.GroundStateElec(potentialenergy=-22.99, spin=1.)]}

    def b_sm(cn):
        return StatMech(name='H2O', trans_model=dc(cn['trans_model']), vib_model=dc(cn['vib_model']),
                        rot_model=dc(cn['rot_model']), elec_model=dc(cn['elec_model']),
                        elements=dc(cn['elements']))
    smm = sm_modes()
    sm0 = {k: v[0] for k, v in smm.items()}
    sm0['elements'] = {'H': 2, 'O': 1}
    sm_ev = []
    for m in ('get_q', 'get_CvoR', 'get_CpoR', 'get_UoRT', 'get_HoRT', 'get_SoR', 'get_FoRT', 'get_GoRT', 'get_EoRT'):
        sm_ev.append(Ev(m))
    sm_ev += [Ev('get_SoR', {'P': 2.}), Ev('get_GoRT', {'P': 0.25, 'verbose': True}),
              Ev('get_HoRT', {'verbose': True}), Ev('get_GoRT', {'H2O_kwargs': {'P': 3.}}),
              Ev('get_q', {'include_ZPE': False}), Ev('get_SoR', {'S_elements': True}),
              Ev('get_Cv', {'units': 'J/mol/K'}), Ev('get_Cp', {'units': 'J/g/K'}),
              Ev('get_U', {'units': 'kJ/mol'}), Ev('get_H', {'units': 'kcal/mol'}),
              Ev('get_S', {'units': 'cal/mol/K'}), Ev('get_F', {'units': 'eV'}),
              Ev('get_G', {'units': 'kJ/mol', 'P': 4.}), Ev('get_E', {'units': 'eV'})]
    attrs = dict(smm)
    attrs['elements'] = [{'H': 2, 'O': 1}, {'C': 1, 'O': 2}]
    _register(Binding('StatMech', sm0, attrs, b_sm, sm_ev, slots=['vib_model', 'rot_model', 'elec_model']))

    # ------------------------------------------------------------------ coverage effect
    IV = [[0., 0.25, 0.5], [0., 0.125, 0.375], [0., 0.3125, 0.4375]]
    SL = [[1.5, -2.25, 4.], [0.5, 3.75, -1.], [-2., 1.25, 2.5]]
    EXTRA = (0.625, 7.5)

    def b_cov(cn):
        return PiecewiseCovEffect(name_i='A', name_j='B', intervals=list(cn['intervals']),
                                  slopes=list(cn['slopes']), name='AB')

    def cov_insert_model(cn, x, s):
        import bisect
        i = bisect.bisect_right(cn['intervals'], x)
        cn['intervals'] = list(cn['intervals'][:i]) + [x] + list(cn['intervals'][i:])
        cn['slopes'] = list(cn['slopes'][:i]) + [s] + list(cn['slopes'][i:])

    def cov_pop_model(cn, i):
        cn['intervals'] = [v for k, v in enumerate(cn['intervals']) if k != i]
        cn['slopes'] = [v for k, v in enumerate(cn['slopes']) if k != i]

    def cov_set(name):
        def gen(rnd, cn):
            n = len(cn[name])
            if name == 'slopes':
                return ([round(rnd.uniform(-8, 8), 3) for _ in range(n)],)
            pts = sorted(round(rnd.uniform(0.05, 0.6), 4) for _ in range(n - 1))
            return ([0.] + pts,)
        return (gen, lambda obj, v: setattr(obj, name, list(v)), lambda cn, v: cn.__setitem__(name, list(v)))
    XI = [1, 0]
    XF = [0.7, 0.85, 1.0, 0.65, 0.93, 0.1, 0.3, 0.45, 0.0]
    cov_ev = [Ev(m, {'T': 350.}, argname='x', pool_int=XI, pool_flt=XF) for m in
              ('get_UoRT', 'get_HoRT', 'get_GoRT', 'get_FoRT')] + \
             [Ev('get_UoRT', {}, argname='x', pool_int=XI, pool_flt=XF),
              Ev('get_H', {'units': 'kcal/mol', 'T': 400.}, argname='x', pool_int=XI, pool_flt=XF)]
    _register(Binding(
        'PiecewiseCovEffect', {'intervals': IV[0], 'slopes': SL[0]}, {}, b_cov, cov_ev,
        ops={'insert': (lambda rnd, cn: (round(rnd.uniform(0.01, 0.62), 4), round(rnd.uniform(-8, 8), 3)),
                        lambda obj, x, s: obj.insert(x, s), cov_insert_model),
             'pop': (lambda rnd, cn: (rnd.randrange(1, max(2, len(cn['intervals']))),),
                     lambda obj, i: obj.pop(i) if len(obj.intervals) > 1 else None,
                     lambda cn, i: cov_pop_model(cn, i) if len(cn['intervals']) > 1 else None),
             'set:slopes': cov_set('slopes'), 'set:intervals': cov_set('intervals')},
        slots=['#structure', 'slopes', 'intervals'],
        stale={'keyed': ['#structure', 'insert', 'pop'], 'methods': [e.tag for e in cov_ev[:2]]}))
    REGISTRY['PiecewiseCovEffect'].model_values = {'IV': IV, 'SL': SL, 'EXTRA': EXTRA}

    # ------------------------------------------------------------------ equations of state
    def b_vdw(cn):
        return vanDerWaalsEOS(a=cn['a'], b=cn['b'])
    _register(Binding('vanDerWaalsEOS', {'a': 0.5536, 'b': 3.049e-5},
                      {'a': [0.5536, 0.3640, 0.1382], 'b': [3.049e-5, 4.267e-5, 3.186e-5]}, b_vdw,
                      [Ev('get_P', {'V': 0.03, 'n': 1.5}), Ev('get_V', {'P': 2., 'n': 1}),
                       Ev('get_V', {'P': 60., 'gas_phase': False}), Ev('get_n', {'V': 0.02, 'P': 1.5}),
                       Ev('get_Vm', {'P': 5}), Ev('get_T', {'P': 3.}, argname='V', pool_int=[1, 2, 3],
                                                  pool_flt=[0.025, 0.5, 1.75]),
                       Ev('get_Tc', argname=None), Ev('get_Pc', argname=None), Ev('get_Vc', {'n': 2}, argname=None)]))
    _register(Binding('IdealGasEOS', {}, {}, lambda cn: IdealGasEOS(),
                      [Ev('get_P', {'V': 0.03, 'n': 1.5}), Ev('get_V', {'P': 2, 'n': 1}),
                       Ev('get_n', {'V': 0.02, 'P': 1.5}),
                       Ev('get_T', {'P': 3.}, argname='V', pool_int=[1, 2, 3], pool_flt=[0.025, 0.5, 1.75])]))

    # ------------------------------------------------------------------ unit tables (module-level observers)
    def const_state(mod):
        return {k: getattr(mod, k, None) for k in ('type_dict', 'prefixes', 'symmetry_dict', 'atomic_weight',
                                                    'S_elements')}

    def const_call(mod, ev, kw):
        return getattr(mod, ev.method)(**kw)
    cu = [Ev('convert_unit', {'initial': i, 'final': f}, argname='num', pool_int=[1, 3, 25, 300],
             pool_flt=[0.5, 2.75, 101.325, 298.15])
          for i, f in (('kJ/mol', 'eV/molecule'), ('C', 'K'), ('K', 'F'), ('bar', 'Pa'), ('cal', 'J'),
                       ('amu', 'kg'), ('L atm', 'J'))]
    cu += [Ev('R', {'units': 'J/mol/K'}, argname=None), Ev('kb', {'units': 'eV/K'}, argname=None),
           Ev('h', {'units': 'J s'}, argname=None), Ev('T0', {'units': 'K'}, argname=None),
           Ev('wavenumber_to_temp', {}, argname='wavenumber', pool_int=[100, 1500, 3000],
              pool_flt=[667.25, 1582.4, 3825.434]),
           Ev('wavenumber_to_energy', {}, argname='wavenumber', pool_int=[100, 1500, 3000],
              pool_flt=[667.25, 1582.4, 3825.434])]
    _register(Binding('constants', {}, {}, lambda cn: c, cu, state=const_state, call=const_call))

    # ------------------------------------------------------------------ reactions
    def species():
        def sm(name, pe, wn, mw, rt, geom, el, sym=2):
            return StatMech(name=name, trans_model=trans.FreeTrans(n_degrees=3, molecular_weight=mw),
                            vib_model=vib.HarmonicVib(vib_wavenumbers=wn),
                            rot_model=rot.RigidRotor(symmetrynumber=sym, rot_temperatures=rt, geometry=geom),
                            elec_model=elec.GroundStateElec(potentialenergy=pe, spin=0.), elements=el)
        return {
            'H2': sm('H2', -6.7598, [4306.1793], 2.016, [87.5], 'linear', {'H': 2}),
            'O2': Nasa(name='O2', T_low=200., T_mid=1000., T_high=3500., elements={'O': 2}, phase='G',
                       a_low=np.array(O2_LOW), a_high=np.array(O2_HIGH)),
            'H2O': sm('H2O', -14.2209, [3825.434, 3710.2642, 1582.432], 18.015, [40.1, 20.9, 13.4], 'nonlinear',
                      {'H': 2, 'O': 1}),
            'TS': sm('TS', -13.1, [3600.5, 1400.25, 900.125], 18.015, [35.5, 18.25, 11.75], 'nonlinear',
                     {'H': 2, 'O': 1}, sym=1),
            'TS2': sm('TS2', -12.6, [3100.5, 1250.25, 700.125], 18.015, [30.5, 15.25, 10.75], 'nonlinear',
                      {'H': 2, 'O': 1}, sym=1),
        }
    SP = species()

    def b_rxn(cn):
        sp = dc(SP)
        return Reaction(reactants=[sp['H2'], sp['O2']], reactants_stoich=list(cn['reactants_stoich']),
                        products=[sp['H2O']], products_stoich=list(cn['products_stoich']),
                        transition_state=[sp[cn['ts']]], transition_state_stoich=[1.])

    def rxn_set_ts(obj, name):
        obj.transition_state = [dc(SP[name])]
    rx_ev = []
    for m in ('get_delta_HoRT', 'get_delta_SoR', 'get_delta_GoRT', 'get_delta_CpoR', 'get_delta_CvoR',
              'get_delta_UoRT', 'get_delta_FoRT', 'get_Keq', 'get_delta_q', 'get_HoRT_act', 'get_SoR_act',
              'get_GoRT_act', 'get_EoRT_act', 'get_A'):
        rx_ev.append(Ev(m))
    rx_ev += [Ev('get_delta_GoRT', {'rev': True, 'H2_kwargs': {'P': 2.}, 'O2_kwargs': {'P': 0.5}}),
              Ev('get_Keq', {'rev': True, 'act': True}), Ev('get_A', {'rev': True, 'use_q': False}),
              Ev('get_delta_H', {'units': 'kJ/mol'}), Ev('get_delta_G', {'units': 'eV', 'rev': True}),
              Ev('get_delta_S', {'units': 'J/mol/K'}), Ev('get_E_act', {'units': 'kcal/mol'}),
              Ev('get_H_act', {'units': 'kJ/mol', 'rev': True}), Ev('get_G_act', {'units': 'kJ/mol'}),
              Ev('get_HoRT_state', {'state': 'reactants'}), Ev('get_q_state', {'state': 'ts'}),
              Ev('get_G_state', {'state': 'products', 'units': 'eV'})]
    _register(Binding(
        'Reaction', {'reactants_stoich': [1., 0.5], 'products_stoich': [1.], 'ts': 'TS'},
        {'reactants_stoich': [[1., 0.5], [2., 1.], [1.5, 0.75]], 'products_stoich': [[1.], [2.], [1.5]]},
        b_rxn, rx_ev,
        ops={'set:transition_state': (lambda rnd, cn: (rnd.choice(['TS', 'TS2']),), rxn_set_ts,
                                      lambda cn, name: cn.__setitem__('ts', name))},
        slots=['reactants_stoich', 'products_stoich']))

    def b_bep(cn):
        sp = dc(SP)
        bep = BEP(slope=cn['slope'], intercept=cn['intercept'], descriptor=cn['descriptor'], name='bep')
        rxn = Reaction(reactants=[sp['H2'], sp['O2']], reactants_stoich=[1., 0.5], products=[sp['H2O']],
                       products_stoich=[1.], transition_state=[bep], transition_state_stoich=[1.])
        return Holder(bep=bep, rxn=rxn)

    def bep_call(hd, ev, kw):
        if ev.method.startswith('rxn.'):
            return getattr(hd.rxn, ev.method[4:])(**kw)
        return getattr(hd.bep, ev.method)(reaction=hd.rxn, **kw)

    def bep_state(hd):
        return {'bep': hd.bep.to_dict(), 'reaction': hd.rxn.to_dict()}
    bep_ev = [Ev('get_E_act', {'units': 'kJ/mol'}), Ev('get_E_act', {'units': 'kcal/mol', 'rev': True}),
              Ev('get_EoRT_act'), Ev('get_HoRT'), Ev('get_UoRT'), Ev('get_GoRT'), Ev('get_SoR'), Ev('get_FoRT'),
              Ev('rxn.get_EoRT_act'), Ev('rxn.get_HoRT_act', {'rev': True}), Ev('rxn.get_GoRT_act'),
              Ev('rxn.get_A'), Ev('rxn.get_E_act', {'units': 'kcal/mol'})]
    _register(Binding(
        'BEP', {'slope': 0.5, 'intercept': 20., 'descriptor': 'delta_H'},
        {'slope': [0.5, 0.75, 0.25], 'intercept': [20., 35.5, 12.25],
         'descriptor': ['delta_H', 'rev_delta_H', 'reactants_H', 'products_H']},
        b_bep, bep_ev, state=bep_state, call=bep_call, target=lambda hd: hd.bep))

    # ------------------------------------------------------------------ references
    def ref(name, el, H, pe, wn, mw, rt, geom):
        return Reference(name=name, elements=el, T_ref=298., HoRT_ref=H, phase='G',
                         model=StatMech(name=name, trans_model=trans.FreeTrans(n_degrees=3, molecular_weight=mw),
                                        vib_model=vib.HarmonicVib(vib_wavenumbers=wn),
                                        rot_model=rot.RigidRotor(symmetrynumber=2, rot_temperatures=rt, geometry=geom),
                                        elec_model=elec.GroundStateElec(potentialenergy=pe, spin=0.), elements=el))
    REFS = {'H2': ref('H2', {'H': 2}, 0., -6.7598, [4306.1793], 2.016, [87.5], 'linear'),
            'H2O': ref('H2O', {'H': 2, 'O': 1}, -97.60604334, -14.2209, [3825.434, 3710.2642, 1582.432], 18.015,
                       [40.1, 20.9, 13.4], 'nonlinear'),
            'O2': ref('O2', {'O': 2}, 0., -9.86, [1580.2], 31.998, [2.08], 'linear'),
            'CH4': ref('CH4', {'C': 1, 'H': 4}, -30.1, -24.04, [3019.5, 1534.2, 2917.1, 1306.4], 16.04,
                       [7.54, 7.54, 7.54], 'nonlinear'),
            'CO2': ref('CO2', {'C': 1, 'O': 2}, -158.7, -22.99, [2349.1, 1333.3, 667.2, 667.2], 44.01, [0.561],
                       'linear')}

    def fitted(names, T_ref=298.15):
        r = References(references=[dc(REFS[k]) for k in names])
        return dc(r.offset), r.T_ref

    def b_refs(cn):
        return References(offset=dc(cn['offset']), references=[dc(REFS[k]) for k in cn['names']],
                          T_ref=cn['T_ref'])

    def refs_fit_model(cn):
        cn['offset'], cn['T_ref'] = fitted(cn['names'])
    off0, tr0 = fitted(['H2', 'H2O'])
    DESC = [{'H': 2, 'O': 1}, {'H': 4, 'C': 1}, {'O': 2}, {'C': 1, 'O': 2, 'H': 2}]
    rf_ev = [Ev('get_HoRT', {'descriptors': d}) for d in DESC] + \
            [Ev('get_GoRT', {'descriptors': DESC[0]}), Ev('get_HoRT', {'descriptors': DESC[3]}, argname=None),
             Ev('get_descriptors_matrix', argname=None)]

    def pick_new(rnd, cn):
        return (rnd.choice(sorted(REFS)),)
    _register(Binding(
        'References', {'names': ['H2', 'H2O'], 'offset': off0, 'T_ref': tr0}, {}, b_refs, rf_ev,
        ops={'append': (pick_new, lambda o, k: o.append(dc(REFS[k])), lambda cn, k: cn['names'].append(k)),
             'extend': (lambda rnd, cn: (rnd.sample(sorted(REFS), 2),),
                        lambda o, ks: o.extend([dc(REFS[k]) for k in ks]), lambda cn, ks: cn['names'].extend(ks)),
             'insert': (lambda rnd, cn: (rnd.randrange(0, len(cn['names']) + 1), rnd.choice(sorted(REFS))),
                        lambda o, i, k: o.insert(i, dc(REFS[k])), lambda cn, i, k: cn['names'].insert(i, k)),
             'pop': (lambda rnd, cn: (rnd.randrange(0, len(cn['names'])),),
                     lambda o, i: o.pop(i) if len(o) > 1 else None,
                     lambda cn, i: cn['names'].pop(i) if len(cn['names']) > 1 else None),
             'fit': (lambda rnd, cn: (), lambda o: o.fit_HoRT_offset(), refs_fit_model),
             'set:offset': (lambda rnd, cn: ({'H': round(rnd.uniform(-5, 5), 3), 'O': round(rnd.uniform(-5, 5), 3)},),
                            lambda o, v: setattr(o, 'offset', dc(v)), lambda cn, v: cn.__setitem__('offset', dc(v)))},
        slots=['#fit', '#append']))

    # ------------------------------------------------------------------ phase diagram
    def b_pd(cn):
        sp = dc(SP)
        r1 = Reaction(reactants=[sp['H2'], sp['O2']], reactants_stoich=[1., 0.5], products=[sp['H2O']],
                      products_stoich=[1.])
        r2 = Reaction(reactants=[sp['H2']], reactants_stoich=[1.], products=[sp['H2']], products_stoich=[1.])
        r3 = Reaction(reactants=[sp['H2O']], reactants_stoich=[1.], products=[sp['TS']], products_stoich=[1.])
        return PhaseDiagram(reactions=[r1, r2, r3], norm_factors=dc(cn['norm_factors']))

    def pd_elem_1d(res, n):
        G, st = res
        return [[float(v) for v in G[:, j]] + [float(st[j])] for j in range(n)]

    def pd_elem_2d(res, n):
        G, st = res
        return [[float(v) for v in G[:, j, :].ravel()] + [float(v) for v in st[j, :]] for j in range(n)]
    pd_ev = [Ev('get_GoRT_1D', {'x_name': 'T'}, argname='x_values', array=True, per_element=pd_elem_1d),
             Ev('get_GoRT_1D', {'x_name': 'T', 'G_units': 'kJ/mol', 'P': 2.}, argname='x_values', array=True,
                per_element=pd_elem_1d),
             Ev('get_GoRT_2D', {'x1_name': 'T', 'x2_name': 'P', 'x2_values': [1, 2.5]}, argname='x1_values',
                array=True, per_element=pd_elem_2d),
             Ev('get_GoRT_2D', {'x1_name': 'T', 'x2_name': 'P', 'x2_values': np.array([0.5, 2.]), 'G_units': 'eV'},
                argname='x1_values', array=True, per_element=pd_elem_2d)]
    for e in pd_ev:
        e.array_only = True
        e.pool_int = [300, 400, 500, 650, 800]
    _register(Binding('PhaseDiagram', {'norm_factors': [1., 1., 1.]},
                      {'norm_factors': [[1., 1., 1.], [1., 2., 0.5], np.array([2., 1., 4.])]}, b_pd, pd_ev))

    # ------------------------------------------------------------------ equilibrium
    def b_eq(cn):
        from pmutt.equilibrium import Equilibrium
        from pmutt.io.thermdat import read_thermdat
        path = os.path.join(os.path.dirname(c.__file__), 'tests', 'equilibrium',
                            'thermdat_equilibrium_unittest.txt')
        model = read_thermdat(path, 'dict')
        return Equilibrium(model={k: model[k] for k in cn['network']}, network=dict(cn['network']))

    def eq_state(eq):
        return {'model': eq.model, 'network': eq.network, 'species': eq.species, 'elements': list(eq.elements),
                'mol_elem': eq.mol_elem, 'ele_feed': eq.ele_feed}
    _register(Binding('Equilibrium', {'network': {'H2O': 1., 'CO': 1., 'H2': 0., 'CO2': 0., 'CH4': 0.}}, {}, b_eq,
                      [Ev('get_net_comp', {'P': 1.}, pool_int=[500, 700, 900], pool_flt=[612.5, 805.25]),
                       Ev('get_net_comp', {'P': 10}, pool_int=[500, 700, 900], pool_flt=[612.5, 805.25])],
                      state=eq_state))
    return REGISTRY


def registry():
    if not REGISTRY:
        _mk_registry()
    return REGISTRY


# ----------------------------------------------------------------------------------------------------
# one evaluation, fully observed
# ----------------------------------------------------------------------------------------------------
def call_eval(b, obj, ev, kw):
    if b.call is not None:
        return b.call(obj, ev, kw)
    return getattr(obj, ev.method)(**kw)


def safe_call(b, obj, ev, kw):
    """-> ('ok', flat list, raw) | ('raise', 'Type: message', None)"""
    import warnings
    try:
        with warnings.catch_warnings():
            warnings.simplefilter('ignore')
            raw = call_eval(b, obj, ev, kw)
        return 'ok', flat(raw), raw
    except Exception as ex:                                   # noqa - the library raised
        return 'raise', '%s: %s' % (type(ex).__name__, str(ex)[:160]), None


# ----------------------------------------------------------------------------------------------------
# a session: one live object, the content a fresh object is built from, the caller's argument store
# ----------------------------------------------------------------------------------------------------
SENTINELS = {'nan': [9, 9, 900], 'inf': [9, 9, 901], '-inf': [-9, -9, 901]}


def _d2(vals):
    from harness.core import to_dec2, finite
    out, fin = [], True
    for v in vals:
        if finite(v):
            out.append(to_dec2(v))
        else:
            out.append(SENTINELS['nan' if v != v else ('inf' if v > 0 else '-inf')])
            fin = False
    return out, fin


class Session:
    def __init__(self, b):
        self.b = b
        self.content = copy.deepcopy(b.base)
        self.obj = None
        self.events = []
        self.epoch = 0
        self.refreshed = None
        self.store = {}
        self.lastop = ''
        self.seen = set()

    # ---- construction and mutators
    def construct(self):
        self.obj = self.b.build(copy.deepcopy(self.content))
        self.refreshed = copy.deepcopy(self.content)
        self.events.append({'ev': 'construct', 'cls': self.b.name})

    def model_only(self, opname, args):
        self._fns(opname)[1](self.content, *copy.deepcopy(args))

    def _fns(self, opname):
        b = self.b
        if opname in b.ops:
            _, real, model = b.ops[opname]
            return real, model
        if not opname.startswith('set:'):
            raise KeyError(opname)
        attr = opname[4:]
        return (lambda o, v: setattr(o, attr, copy.deepcopy(v)),
                lambda cn, v: cn.__setitem__(attr, copy.deepcopy(v)))

    def mutate(self, opname, args):
        import warnings
        real, model = self._fns(opname)
        st = 'ok'
        try:
            with warnings.catch_warnings():
                warnings.simplefilter('ignore')
                real(self.b.target(self.obj), *copy.deepcopy(args))
        except Exception as ex:                               # noqa - the library raised
            st = '%s: %s' % (type(ex).__name__, str(ex)[:120])
        model(self.content, *copy.deepcopy(args))
        self.epoch += 1
        self.seen = set()
        self.lastop = opname
        if self.b.stale and (opname in self.b.stale['keyed'] or opname[4:] in self.b.stale['keyed']):
            self.refreshed = copy.deepcopy(self.content)
        self.events.append({'ev': 'mutate', 'cls': self.b.name, 'op': opname, 'st': 'ok' if st == 'ok' else 'raise',
                            'err': st})

    def unrefreshed(self):
        if not self.b.stale:
            return ''
        return '+'.join(sorted(k for k in self.content if not k.startswith('_')
                               and digest(self.content[k]) != digest(self.refreshed.get(k))))

    # ---- the caller's own objects
    def write(self, ref, kind, temps, flavour=0):
        import numpy as np
        old = self.store.get(ref)
        new = make_arg(kind, temps, flavour)
        if isinstance(old, np.ndarray) and isinstance(new, np.ndarray) and old.shape == new.shape \
                and old.dtype == new.dtype:
            old[...] = new                                    # same identity, new value
        elif isinstance(old, list) and isinstance(new, list):
            old[:] = new
        else:
            self.store[ref] = new
        self.events.append({'ev': 'write', 'cls': self.b.name})

    # ---- one evaluation, fully observed
    def evaluate(self, ev, kind, temps=None, ref=None, flavour=0):
        import numpy as np
        b = self.b
        if ev.argname is None:
            kind = 'none'
            arg = None
        elif ref is not None:
            arg = self.store[ref]
        else:
            arg = make_arg(kind, temps, flavour)
        arg0 = copy.deepcopy(arg)
        kw = copy.deepcopy(ev.fixed)
        if ev.argname is not None:
            kw[ev.argname] = arg                              # the caller's object itself
        ab, sb = digest(kw), state_digest(b.state(self.obj))
        st, res, raw = safe_call(b, self.obj, ev, kw)
        aa, sa = digest(kw), state_digest(b.state(self.obj))
        key = ev.tag + '#' + ab
        hit = key in self.seen
        self.seen.add(key)
        # the same call on a freshly constructed object with the same content and an equal argument
        fkw = copy.deepcopy(ev.fixed)
        if ev.argname is not None:
            fkw[ev.argname] = copy.deepcopy(arg0)
        try:
            fobj = b.build(copy.deepcopy(self.content))
            fst, fres, fraw = safe_call(b, fobj, ev, fkw)
        except Exception as ex:                               # noqa
            fst, fres, fraw = 'raise', '%s: %s' % (type(ex).__name__, str(ex)[:120]), None
        e = {'ev': 'eval', 'cls': b.name, 'm': ev.tag, 'kind': kind, 'key': key, 'ab': ab, 'aa': aa, 'sb': sb,
             'sa': sa, 'st': st, 'fst': fst, 'epoch': self.epoch, 'arr': False, 'isint': kind in INT_KINDS,
             'flst': 'skip', 'flt': [], 'scal': [], 'sst': 'skip', 'k': 1, 'n': 1, 'fin': True}
        info = {'method': ev.method, 'kind': kind, 'unref': self.unrefreshed(), 'lastop': self.lastop, 'hit': hit,
                'arg': snap(arg0), 'fixed': snap(ev.fixed),
                'dtype': str(getattr(arg0, 'dtype', type(arg0).__name__))}
        if st != 'ok':
            info['raised'] = res
        if fst != 'ok':
            info['fresh_raised'] = fres
        temps0 = elements_of(arg0, kind) if ev.argname is not None else []
        n = len(temps0) if kind in ARRAY_KINDS else 1
        e['n'] = n
        arr = kind in ARRAY_KINDS and ev.array

        def project(flatvals, raw_):
            """(values in element-major order, k) - the same projection for every call of this event"""
            if arr and ev.per_element is not None and raw_ is not None:
                try:
                    rows = ev.per_element(raw_, n)
                    return [v for r in rows for v in r], (len(rows[0]) if rows else 1)
                except Exception:                             # noqa - wrong shape: the length clause fails
                    return flatvals, 1
            return flatvals, max(1, len(flatvals) // n) if n else 1
        vals, k = project(res, raw) if st == 'ok' else ([], 1)
        if fst == 'ok':
            fres, _ = project(fres, fraw)
        scal, flt = [], []
        if st == 'ok' and arr:
            e['arr'] = True
            sst = 'ok'
            for t in temps0:
                skw = copy.deepcopy(ev.fixed)
                skw[ev.argname] = np.array([t]) if ev.array_only else float(t)
                s1, r1, raw1 = safe_call(b, self.obj, ev, skw)
                if s1 != 'ok':
                    sst = 'raise'
                    info['scalar_raised'] = r1
                    break
                scal.extend(ev.per_element(raw1, 1)[0] if ev.per_element is not None else r1)
            e['sst'] = sst
        if kind in INT_KINDS:
            lkw = copy.deepcopy(ev.fixed)
            lkw[ev.argname] = as_float_arg(arg0, kind)
            s2, r2, raw2 = safe_call(b, self.obj, ev, lkw)
            e['flst'] = s2
            if s2 == 'ok':
                flt, _ = project(r2, raw2)
            else:
                info['float_raised'] = r2
        e['k'] = k
        mags = []
        for j in range(n):
            grp = [abs(v) for seq in (vals, scal, flt) for v in seq[j * k:(j + 1) * k] if math.isfinite(v)]
            big = max(grp + [1e-300])
            if b.scale is not None and st == 'ok' and temps0:
                try:
                    big = max(big, float(b.scale(self.content, ev, kw, temps0[j] if kind in ARRAY_KINDS else temps0[0])))
                except Exception:                             # noqa - scale is an optional sensor
                    pass
            mags.append(big)
        from harness.core import to_dec
        e['mag'] = [to_dec(m) for m in mags]
        e['res'], f1 = _d2(vals)
        e['fresh'], f2 = _d2(fres if fst == 'ok' else [])
        e['scal'], f3 = _d2(scal)
        e['flt'], f4 = _d2(flt)
        e['fin'] = bool(f1 and f2 and f3 and f4)
        flags = {'same': st == 'ok' and fst == 'ok' and vals_equal(vals, fres), 'argsame': ab == aa,
                 'statesame': sb == sa, 'raised': st != 'ok'}
        self.events.append(e)
        return e, info, flags


def vals_equal(a, b):
    from harness.core import to_dec2, finite
    if len(a) != len(b):
        return False
    for x, y in zip(a, b):
        if finite(x) != finite(y):
            return False
        if finite(x) and to_dec2(x) != to_dec2(y):
            return False
        if not finite(x) and repr(float(x)) != repr(float(y)):
            return False
    return True
