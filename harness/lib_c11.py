"""C11 helpers: build real pMuTT objects from the abstract trees of JsonRoundTrip.tla,
drive encode/decode lifecycles through the real encoder and object hook, and project what
was observed into trace events for Trace_JsonRoundTrip.tla.

Nothing here decides the property: values are projected (numbers -> Dec2, containers ->
tuples, objects -> class names) and every comparison is made by the trace specification.
The schema (child slots, attribute names) is read from TLC's output (JsonRoundTrip.tla)."""
import copy
import inspect
import json
import math
import random
import re
import traceback

from harness import core
from harness.core import to_dec2

# both pressures differ from 1 bar: an attached or missing GasPressureAdj shows in S and G
STATE_POINTS = ({'T': 298.15, 'P': 0.5, 'x': 0.25, 'V': 0.03, 'n': 1.5},
                {'T': 612.5, 'P': 2.5, 'x': 0.75, 'V': 0.011, 'n': 0.75})

# attributes that never enter a thermodynamic getter (labels); everything else is assumed to
# feed the getters of the node or of its ancestors (a failed feeding attribute masks them)
LABELS = {'name', 'notes', 'smiles', 'elements', 'phase', 'id', 'n_sites', 'D0', 'add_gas_P_adj'}


# --------------------------------------------------------------------------
# value generators
# --------------------------------------------------------------------------
class FalsyRandom(random.Random):
    """Random source that also carries the 'falsy' mode of a case: None (ordinary non-default
    values), 'half' (every scalar slot takes a falsy member of its type with probability 1/2) or
    'all' (every scalar slot does).  Falsy but meaningful values - 0, 0.0, -0.0, False, '', {}, [] -
    must come back as themselves, not as None or as the constructor default."""
    falsy = None
    # flavour of the values of a case: None (plain Python values), 'numpy' (NumPy scalars: int64,
    # float64, bool_, arrays), 'none' (optional constructor arguments left at None), 'extreme'
    # (largest / smallest / subnormal doubles, NaN, +-inf: json.dumps and json.loads accept them)
    flavor = None

    def hit(self):
        return self.falsy == 'all' or (self.falsy == 'half' and self.random() < 0.5)


def _hit(rnd):
    return getattr(rnd, 'falsy', None) is not None and rnd.hit()


def _flavor(rnd):
    return getattr(rnd, 'flavor', None)


def _skip(rnd, opt):
    """optional constructor argument left at None ('none' flavour)"""
    return opt and _flavor(rnd) == 'none' and rnd.random() < 0.7


def _i(rnd, options, opt=False):
    """integer-valued slot"""
    if _skip(rnd, opt):
        return None
    v = 0 if _hit(rnd) else rnd.choice(options)
    if _flavor(rnd) == 'numpy':
        import numpy as np
        return np.int64(v)
    return v


def _b(rnd, value):
    """boolean slot"""
    v = False if _hit(rnd) else value
    if _flavor(rnd) == 'numpy':
        import numpy as np
        return np.bool_(v)
    return v


def _s(rnd, value, opt=False):
    """string slot"""
    if _skip(rnd, opt):
        return None
    return '' if _hit(rnd) else value


def _arr(rnd, values, kinds=('list', 'tuple', 'ndarray')):
    """array-valued slot in one of the container types the constructor accepts"""
    import numpy as np
    kind = 'ndarray' if _flavor(rnd) == 'numpy' and 'ndarray' in kinds else rnd.choice(kinds)
    if kind == 'tuple':
        return tuple(values)
    if kind == 'ndarray':
        return np.array(values, dtype=float)
    return list(values)


EXTREME = [1.7976931348623157e308, -1.7976931348623157e308, 5e-324, 2.2250738585072014e-308, 1e-300,
           1.2345678901234567e200, float('nan'), float('inf'), -float('inf')]
NON_ASCII = ['α', 'β-Al₂O₃', 'Å', 'µ', 'é', '水', '₂', 'Ω⁻']


def _name(rnd, stem):
    tail = ''.join(rnd.choice('ABCDEFGHJKLMNPQRSTUVWXYZabcdefghkmnpqrstuvwxyz0123456789')
                   for _ in range(rnd.randint(1, 5)))
    if rnd.random() < 0.25:
        tail += rnd.choice(NON_ASCII)          # non-ASCII names, notes, SMILES
    return rnd.choice(['%s%s', '%s_%s', '%s%s(S)', '%s-%s*']) % (stem, tail)


def _f(rnd, lo, hi, nz=False, opt=False):
    """float slot; nz: the constructor or a neighbouring slot needs a proper number here;
    opt: the constructor argument may be left at None"""
    if _skip(rnd, opt):
        return None
    if not nz and _hit(rnd):
        return rnd.choice([0.0, 0.0, -0.0, 0])
    fl = _flavor(rnd)
    if not nz and fl == 'extreme' and rnd.random() < 0.5:
        return rnd.choice(EXTREME)
    x = rnd.uniform(lo, hi)
    if fl == 'numpy':
        import numpy as np
        return np.float64(x)
    return x


def _notes(rnd):
    if _skip(rnd, True):
        return None
    if _hit(rnd):
        return rnd.choice(['', {}])
    r = rnd.random()
    if r < 0.4:
        return 'note %s; "quoted" \\ %d' % (_name(rnd, 'n'), rnd.randint(0, 999))
    d = {'source': _name(rnd, 'src'), 'year': rnd.randint(1900, 2030), 'scale': _f(rnd, 0.1, 9.0, nz=True)}
    if r < 0.7:
        # nested containers and keys that look like the encoder's own markers (the values are not
        # class tags: a notes dictionary that IS an encoded object cannot be told apart by design)
        d.update({'class': rnd.choice(['C2v', 'transition state', '']), 'type': 'dft', '_id': rnd.randint(0, 99),
                  'refs': [_name(rnd, 'doi'), {'page': rnd.randint(1, 900)}], 'nested': {'a': {'b': [1, 2.5, None, True]}}})
    return d


def _elements(rnd):
    if _skip(rnd, True):
        return None
    if _hit(rnd):
        return {}
    if _flavor(rnd) == 'numpy':
        import numpy as np
        return {e: np.int64(rnd.randint(1, 4)) for e in rnd.sample(['H', 'C', 'O', 'N', 'Pt'], rnd.randint(1, 3))}
    els = rnd.sample(['H', 'C', 'O', 'N', 'Pt', 'Ru', 'Cu'], rnd.randint(1, 3))
    return {e: rnd.randint(1, 4) for e in els}


def _smiles(rnd):
    if _skip(rnd, True):
        return None
    if _hit(rnd):
        return ''
    return rnd.choice(['O', 'C=O', '[H][H]', 'CC(O)=O', 'N#N', 'O=C=O']) + rnd.choice(['', '.[Pt]'])


# --------------------------------------------------------------------------
# builders: abstract node -> real object
# --------------------------------------------------------------------------
class Builder:
    def __init__(self, schema, rnd):
        self.schema = schema
        self.rnd = rnd
        self.counter = 0
        self.shared = 0           # sub-objects used in two places of the tree
        self._pool = {}
        self._plain = 0           # > 0 while a refused subtree is rebuilt with plain values
        self.fallbacks = 0

    SHARABLE = ('StatMech', 'Nasa', 'Shomate', 'Nasa9', 'BEP', 'OmkmBEP', 'References', 'CatSite')

    def build(self, node, hint=None):
        """Real object of an abstract node.  Where the tree holds the same subtree twice (the same
        species in two reactions or on both sides of one, one References behind several species,
        one BEP for two reactions) the two places may get ONE object: equal content is required
        after decoding, identity is not."""
        c = node['c']
        if c in self.SHARABLE:
            key = json.dumps(node, sort_keys=True)
            pool = self._pool.setdefault(key, [])
            if pool and not self._plain and self.rnd.random() < 0.4:
                self.shared += 1
                return self.rnd.choice(pool)
            obj = self._build(node, hint)
            if not self._plain:
                pool.append(obj)
            return obj
        return self._build(node, hint)

    def _build(self, node, hint=None):
        c = node['c']
        kids = {}
        slots = node['k'] if isinstance(node['k'], dict) else {}
        for sl in self.schema[c]:
            sub = slots.get(sl['s'], [])
            kids[sl['s']] = [self.build(k, hint=self._hint(c, sl['s'], node)) for k in sub]
        mode, flavor = getattr(self.rnd, 'falsy', None), getattr(self.rnd, 'flavor', None)
        try:
            return getattr(self, 'b_' + c)(kids, hint or {})
        except Exception:
            if mode is None and flavor is None:
                raise
            # a value the constructor does not accept: build this subtree with ordinary values
            self.rnd.falsy = self.rnd.flavor = None
            self.fallbacks += 1
            self._plain += 1
            try:
                return self._build(node, hint)
            finally:
                self._plain -= 1
                self.rnd.falsy, self.rnd.flavor = mode, flavor

    def _hint(self, c, slot, node):
        h = {}
        if c == 'ChemkinReaction':
            h['phase_required'] = True
        if c == 'StatMech' and slot == 'references':
            h['owner'] = 'StatMech'
        return h

    def _uid(self, stem):
        self.counter += 1
        if _hit(self.rnd):
            return ''
        return '%s%d' % (_name(self.rnd, stem), self.counter)

    # ---- leaves
    def b_EmptyMode(self, kids, hint):
        from pmutt.statmech import EmptyMode
        return EmptyMode()

    def b_EmptyNucl(self, kids, hint):
        from pmutt.statmech.nucl import EmptyNucl
        return EmptyNucl()

    def b_GasPressureAdj(self, kids, hint):
        from pmutt.empirical import GasPressureAdj
        return GasPressureAdj()

    def b_IdealGasEOS(self, kids, hint):
        from pmutt.eos import IdealGasEOS
        return IdealGasEOS()

    def b_vanDerWaalsEOS(self, kids, hint):
        from pmutt.eos import vanDerWaalsEOS
        return vanDerWaalsEOS(a=_f(self.rnd, 0.05, 2.0), b=_f(self.rnd, 1e-5, 9e-5))

    def b_ConstantMode(self, kids, hint):
        from pmutt.statmech import ConstantMode
        r = self.rnd
        return ConstantMode(q=_f(r, 1.1, 9.), Cv=_f(r, 1e-5, 9e-4), Cp=_f(r, 1e-5, 9e-4),
                            U=_f(r, -3., 3.), H=_f(r, -3., 3.), S=_f(r, 1e-4, 9e-3),
                            F=_f(r, -3., 3.), G=_f(r, -3., 3.), notes=_notes(r))

    def b_FreeTrans(self, kids, hint):
        from pmutt.statmech.trans import FreeTrans
        return FreeTrans(n_degrees=_i(self.rnd, [1, 2, 3]), molecular_weight=_f(self.rnd, 2., 200., opt=True))

    def _wavenumbers(self, n=None):
        r = self.rnd
        if _hit(r):
            return []
        return [_f(r, 60., 3900., nz=True) for _ in range(n or r.randint(1, 6))]

    def b_HarmonicVib(self, kids, hint):
        from pmutt.statmech.vib import HarmonicVib
        w = self._wavenumbers()
        w = w + [-_f(self.rnd, 50., 900., nz=True)] if w else w
        return HarmonicVib(vib_wavenumbers=_arr(self.rnd, w), imaginary_substitute=_f(self.rnd, 20., 90., opt=True))

    def b_QRRHOVib(self, kids, hint):
        from pmutt.statmech.vib import QRRHOVib
        r = self.rnd
        w = self._wavenumbers()
        w = w + [-_f(r, 50., 900., nz=True)] if w else w
        return QRRHOVib(vib_wavenumbers=_arr(r, w), Bav=_f(r, 2e-44, 9e-44), v0=_f(r, 60., 190.),
                        alpha=_i(r, [2, 3, 4, 5]), imaginary_substitute=_f(r, 20., 90., opt=True))

    def b_EinsteinVib(self, kids, hint):
        from pmutt.statmech.vib import EinsteinVib
        return EinsteinVib(einstein_temperature=_f(self.rnd, 90., 900.),
                           interaction_energy=_f(self.rnd, -2., 2.))

    def b_DebyeVib(self, kids, hint):
        from pmutt.statmech.vib import DebyeVib
        return DebyeVib(debye_temperature=_f(self.rnd, 90., 900.),
                        interaction_energy=_f(self.rnd, -2., 2.))

    def b_RigidRotor(self, kids, hint):
        from pmutt.statmech.rot import RigidRotor
        r = self.rnd
        from pmutt import constants as c
        if _skip(r, True):
            return RigidRotor(symmetrynumber=_i(r, [1, 2, 3]))     # temperatures and geometry left at None
        geo = r.choice(['nonlinear', 'linear', 'monatomic'])
        n = {'nonlinear': 3, 'linear': 1, 'monatomic': 0}[geo]
        sym = _i(r, [1, 2, 3, 12])
        if r.random() < 0.3:
            sym = r.choice(sorted(c.symmetry_dict))      # point group given as a string
        return RigidRotor(symmetrynumber=sym, geometry=geo,
                          rot_temperatures=_arr(r, [_f(r, 0.5, 60., nz=True) for _ in range(n)]))

    def b_GroundStateElec(self, kids, hint):
        from pmutt.statmech.elec import GroundStateElec
        r = self.rnd
        return GroundStateElec(potentialenergy=_f(r, -90., -1.), spin=(0.0 if _hit(r) else r.choice([0., 0.5, 1., 1.5])),
                               D0=_f(r, 0.5, 6., opt=True))

    def b_PiecewiseCovEffect(self, kids, hint):
        from pmutt.mixture.cov import PiecewiseCovEffect
        r = self.rnd
        n = r.randint(1, 3)
        iv = [0.] + sorted(_f(r, 0.05, 0.95, nz=True) for _ in range(n - 1))
        return PiecewiseCovEffect(name_i=self._uid('I'), name_j=self._uid('J'), intervals=iv,
                                  slopes=[_f(r, -30., 30.) for _ in iv], name=_s(r, self._uid('cov'), opt=True))

    def b_CatSite(self, kids, hint):
        from pmutt.chemkin import CatSite
        r = self.rnd
        nm = self._uid('SITE')
        return CatSite(name=nm, site_density=_f(r, 1e-9, 9e-9), density=_f(r, 2., 22.),
                       bulk_specie=_s(r, nm + '(B)'))

    def b_BEP(self, kids, hint):
        from pmutt.reaction.bep import BEP
        r = self.rnd
        return BEP(**self._bep_kwargs())

    def _bep_kwargs(self):
        r = self.rnd
        return dict(slope=_f(r, 0.1, 0.95), intercept=_f(r, 1., 40.), name=_s(r, self._uid('bep'), opt=True),
                    descriptor=r.choice(['delta_H', 'rev_delta_H', 'reactants_H', 'products_H', 'delta_E',
                                         'rev_delta_E', 'reactants_E', 'products_E']),
                    elements=_elements(r), notes=_notes(r))

    def b_OmkmBEP(self, kids, hint):
        from pmutt.omkm.reaction import BEP
        return BEP(direction=_s(self.rnd, self.rnd.choice(['synthesis', 'cleavage']), opt=True), **self._bep_kwargs())

    def b_SingleNasa9(self, kids, hint):
        import numpy as np
        from pmutt.empirical.nasa import SingleNasa9
        r = self.rnd
        lo = hint.get('T_low', _f(r, 150., 400.))
        hi = hint.get('T_high', lo + _f(r, 300., 900., nz=True))
        a = [_f(r, -2e3, 2e3), _f(r, -50., 50.), _f(r, 1., 6., nz=True), _f(r, -1e-3, 1e-3), _f(r, -1e-6, 1e-6),
             _f(r, -1e-9, 1e-9), _f(r, -1e-13, 1e-13), _f(r, -3e4, 3e4), _f(r, -9., 9.)]
        return SingleNasa9(T_low=lo, T_high=hi, a=np.array(a))

    # ---- species
    def _emp_kwargs(self, kids, hint, stem):
        r = self.rnd
        misc = list(kids.get('misc_models', []))
        has_adj = any(type(m).__name__ == 'GasPressureAdj' for m in misc)
        phase, add = self._phase_option(has_adj, bool(hint.get('phase_required')))
        kw = {'name': self._uid(stem), 'phase': phase, 'add_gas_P_adj': add, 'elements': _elements(r),
              'smiles': _smiles(r), 'notes': _notes(r), 'misc_models': misc if misc else None}
        if kids.get('model'):
            kw['model'] = kids['model'][0]
        return kw

    def _phase_option(self, has_adj, need_str):
        """(phase, add_gas_P_adj) over every phase spelling the constructor accepts, crossed with
        the option, restricted to the combinations for which the constructor leaves the given
        misc_models as the abstract tree has them (a gas with add_gas_P_adj=True gets a
        GasPressureAdj appended unless one is already there)."""
        r = self.rnd
        gas = r.choice(GAS_SPELLINGS)
        other = r.choice(['S', 's', 'L', 'surface'] if need_str else ['S', 's', 'L', 'surface', None])
        if _hit(r):
            other = ''
        if has_adj:
            # adjustment given explicitly: kept by every combination
            return r.choice([(gas, True), (gas, True), (gas, False), (other, True), (other, False)])
        return r.choice([(gas, False), (gas, False), (other, True), (other, False)])

    def b_StatMech(self, kids, hint):
        from pmutt.statmech import StatMech
        r = self.rnd
        misc = list(kids.get('misc_models', []))
        refs = kids['references'][0] if kids.get('references') else None
        els = _elements(r)
        if refs is not None:
            els = {'H': r.randint(1, 4), 'O': r.randint(1, 3)}
        return StatMech(name=self._uid('SM'), trans_model=kids['trans_model'][0],
                        vib_model=kids['vib_model'][0], rot_model=kids['rot_model'][0],
                        elec_model=kids['elec_model'][0], nucl_model=kids['nucl_model'][0],
                        misc_models=misc if misc else None, elements=els, references=refs,
                        smiles=_smiles(r), notes=_notes(r))

    def b_Nasa(self, kids, hint):
        from pmutt.empirical.nasa import Nasa
        r = self.rnd
        kw = self._emp_kwargs(kids, hint, 'NS')
        lo = _f(r, 150., 320.)
        mid = lo + _f(r, 500., 900., nz=True)
        cat = kids['cat_site'][0] if kids.get('cat_site') else None
        return Nasa(T_low=lo, T_mid=mid, T_high=mid + _f(r, 900., 2500., nz=True),
                    a_low=_arr(r, [_f(r, 2., 6., nz=True), _f(r, -3e-3, 3e-3), _f(r, -7e-6, 7e-6), _f(r, -6e-9, 6e-9),
                           _f(r, -2e-12, 2e-12), _f(r, -4e4, 4e4), _f(r, -9., 9.)]),
                    a_high=_arr(r, [_f(r, 2., 6., nz=True), _f(r, -3e-3, 3e-3), _f(r, -7e-7, 7e-7), _f(r, -6e-10, 6e-10),
                            _f(r, -2e-14, 2e-14), _f(r, -4e4, 4e4), _f(r, -9., 9.)]),
                    cat_site=cat, n_sites=_i(r, [1, 2, 3, 4], opt=True), **kw)

    def b_Shomate(self, kids, hint):
        import numpy as np
        from pmutt.empirical.shomate import Shomate
        r = self.rnd
        kw = self._emp_kwargs(kids, hint, 'SH')
        lo = _f(r, 150., 500.)
        a = [_f(r, 10., 60., nz=True), _f(r, -20., 20.), _f(r, -10., 10.), _f(r, -4., 4.), _f(r, -1., 1.),
             _f(r, -400., 100.), _f(r, 100., 300.), _f(r, -400., 100.)]
        return Shomate(T_low=lo, T_high=lo + _f(r, 900., 2500., nz=True), a=_arr(r, a),
                       units=r.choice(r_units()), n_sites=_i(r, [1, 2, 3, 4], opt=True), **kw)

    def b_Nasa9(self, kids, hint):
        import numpy as np
        from pmutt.empirical.nasa import Nasa9
        r = self.rnd
        kw = self._emp_kwargs(kids, hint, 'N9')
        # contiguous temperature windows (adjacent windows share a bound and have different
        # coefficients), handed to the constructor in ascending, descending or shuffled order:
        # the stored order decides which polynomial answers at a shared bound
        nasas = kids['nasas']
        order = list(range(len(nasas)))
        how = hint.get('order') or r.choice(['ascending', 'descending', 'descending', 'shuffled'])
        if how == 'descending':
            order.reverse()
        elif how == 'shuffled':
            r.shuffle(order)
        lo = _f(r, 150., 320.)
        windows = []
        for _ in nasas:
            hi = lo + _f(r, 500., 1500., nz=True)
            windows.append((lo, hi))
            lo = hi
        for n9, w in zip(nasas, order):
            n9.T_low, n9.T_high = windows[w]
        return Nasa9(nasas=nasas, n_sites=_i(r, [1, 2, 3, 4], opt=True), **kw)

    def b_Reference(self, kids, hint):
        from pmutt.empirical.references import Reference
        r = self.rnd
        misc = list(kids.get('misc_models', []))
        has_adj = any(type(m).__name__ == 'GasPressureAdj' for m in misc)
        i = hint.get('index', 0)
        els = [{'H': 2}, {'O': 2}, {'H': 2, 'O': 1}][i % 3]
        phase, add = self._phase_option(has_adj, False)
        return Reference(name=self._uid('REF'), phase=phase, add_gas_P_adj=add, elements=els,
                         smiles=_smiles(r), notes=_notes(r), model=kids['model'][0],
                         misc_models=misc if misc else None,
                         T_ref=hint.get('T_ref', 298.15), HoRT_ref=_f(r, -90., 5.))

    def b_References(self, kids, hint):
        from pmutt.empirical.references import References
        refs = kids['references']
        if not refs:
            # no reference species: the offsets are given directly
            return References(offset={'H': _f(self.rnd, -9., 9.), 'O': _f(self.rnd, -9., 9.)},
                              references=None, descriptor='elements', T_ref=_f(self.rnd, 250., 400., nz=True))
        base = [{'H': 2}, {'O': 2}, {'H': 2, 'O': 1}]
        for i, ref in enumerate(refs):
            ref.elements = dict(base[i % 3])
            ref.T_ref = 298.15
        return make_references(refs, self.rnd, self.rnd.choice(['fitted', 'explicit', 'explicit', 'stale', 'stale']))

    # ---- reactions
    def _rxn_kwargs(self, kids):
        r = self.rnd
        reactants, products = list(kids['reactants']), list(kids['products'])
        kw = {'reactants': reactants, 'reactants_stoich': _arr(r, [r.choice([1., 2., 0.5, 1.5, 1]) for _ in reactants]),
              'products': products, 'products_stoich': _arr(r, [r.choice([1., 2., 0.5, 3., 2]) for _ in products]),
              'notes': _notes(r)}
        if kids.get('transition_state'):
            kw['transition_state'] = kids['transition_state']
            kw['transition_state_stoich'] = _arr(r, [r.choice([1., 2.]) for _ in kids['transition_state']])
        return kw

    def _share_between(self, reactions):
        """Two reactions of a set use the same species object (equal content is required after
        decoding, identity is not)."""
        return reactions          # sharing is done in build(): identical subtrees may be one object

    def b_Reaction(self, kids, hint):
        from pmutt.reaction import Reaction
        return Reaction(**self._rxn_kwargs(kids))

    def b_ChemkinReaction(self, kids, hint):
        from pmutt.reaction import ChemkinReaction
        r = self.rnd
        return ChemkinReaction(beta=_f(r, 0.1, 0.9), is_adsorption=_b(r, r.random() < 0.7),
                               sticking_coeff=_f(r, 0.05, 0.45),
                               **self._rxn_kwargs(kids))

    def b_SurfaceReaction(self, kids, hint):
        from pmutt.omkm.reaction import SurfaceReaction
        r = self.rnd
        return SurfaceReaction(id=_s(r, self._uid('r_'), opt=True), is_adsorption=_b(r, r.random() < 0.6),
                               A=_f(r, 1e10, 9e13, opt=True), beta=_f(r, 0.1, 0.9, opt=True), Ea=_f(r, 1., 40., opt=True),
                               sticking_coeff=_f(r, 0.05, 0.45, opt=True),
                               direction=_s(r, r.choice(['synthesis', 'cleavage']), opt=True),
                               use_motz_wise=_b(r, r.random() < 0.6),
                               **self._rxn_kwargs(kids))

    def b_Reactions(self, kids, hint):
        from pmutt.reaction import Reactions
        return Reactions(reactions=self._share_between(kids['reactions']))

    def b_Network(self, kids, hint):
        from pmutt.reaction.network import Network
        return Network(reactions=self._share_between(kids['reactions']))

    def b_PhaseDiagram(self, kids, hint):
        from pmutt.reaction.phasediagram import PhaseDiagram
        rxns = self._share_between(kids['reactions'])
        if _skip(self.rnd, True):
            return PhaseDiagram(reactions=rxns)           # norm_factors left at its default
        return PhaseDiagram(reactions=rxns, norm_factors=_arr(self.rnd, [_f(self.rnd, 1.5, 9.) for _ in rxns]))

    def b_EmpiricalBase(self, kids, hint):
        from pmutt.empirical import EmpiricalBase
        return EmpiricalBase(**self._emp_kwargs(kids, hint, 'EB'))

    def b_ExtendedLSR(self, kids, hint):
        from pmutt.statmech.lsr import ExtendedLSR
        r = self.rnd
        rxns = kids['reactions']
        kw = dict(slopes=_arr(r, [_f(r, 0.1, 0.9) for _ in rxns]), intercept=_f(r, -20., 20.), reactions=rxns,
                  surf_species=kids['surf_species'], gas_species=kids['gas_species'])
        if 'notes' in __import__('inspect').signature(ExtendedLSR.__init__).parameters:
            kw['notes'] = _notes(r)
        return ExtendedLSR(**kw)

    def b_LSR(self, kids, hint):
        from pmutt.statmech.lsr import LSR
        r = self.rnd
        return LSR(slope=_f(r, 0.1, 0.9), intercept=_f(r, -20., 20.), reaction=kids['reaction'][0],
                   surf_species=kids['surf_species'][0], gas_species=kids['gas_species'][0], notes=_notes(r))


GAS_SPELLINGS = ['g', 'G', 'gas', 'Gas', 'GAS']
_R_UNITS = []


def r_units():
    """every unit string pmutt.constants.R accepts (the values Shomate.units may take)"""
    if not _R_UNITS:
        from pmutt import constants as c
        for u in ('J/mol/K', 'kJ/mol/K', 'L kPa/mol/K', 'cm3 kPa/mol/K', 'm3 Pa/mol/K', 'cm3 MPa/mol/K',
                  'm3 bar/mol/K', 'L bar/mol/K', 'L torr/mol/K', 'cal/mol/K', 'kcal/mol/K', 'L atm/mol/K',
                  'cm3 atm/mol/K', 'eV/K', 'Eh/K', 'Ha/K'):
            try:
                c.R(u)
                _R_UNITS.append(u)
            except Exception:
                pass
    return _R_UNITS


def make_references(refs, rnd, state):
    """A References object over the given Reference species in one of the states a user can
    reach: 'fitted' (offset = least-squares fit of the references), 'explicit' (offset dictionary
    and T_ref handed in next to the references: the constructor does not fit), 'stale' (fitted,
    then edited without refitting: a species appended after the fit, or a reference enthalpy
    changed).  In the last two the offset is NOT the fit of the current references."""
    from pmutt.empirical.references import References
    if state == 'explicit':
        return References(offset={'H': _f(rnd, -9., 9.), 'O': _f(rnd, -9., 9.)}, references=refs,
                          descriptor='elements', T_ref=_f(rnd, 250., 400., nz=True))
    if state == 'stale':
        if len(refs) >= 2 and rnd.random() < 0.6:
            obj = References(references=list(refs[:-1]), descriptor='elements')
            obj.append(refs[-1])
        else:
            obj = References(references=list(refs), descriptor='elements')
            refs[0].HoRT_ref = refs[0].HoRT_ref + _f(rnd, 3., 30., nz=True)
        return obj
    return References(references=refs, descriptor='elements')


# --------------------------------------------------------------------------
# projection
# --------------------------------------------------------------------------
SLOT_ATTR = {}          # (class, slot) -> attribute name when it differs from the slot name


QUALIFIED = {'pmutt.omkm.reaction.BEP': 'OmkmBEP'}       # class names that occur twice in pmutt


def short_class(o):
    t = type(o)
    return QUALIFIED.get('%s.%s' % (t.__module__, t.__name__), t.__name__)


def is_pmutt_obj(o):
    return (not isinstance(o, dict)) and hasattr(o, 'to_dict') and hasattr(type(o), 'from_dict')


def tag_class(tag):
    """'<class 'pmutt.statmech.StatMech'>' -> 'StatMech' (the encoder's class tag)."""
    if isinstance(tag, (list, tuple)) and tag:
        tag = tag[0]
    if not isinstance(tag, str):
        return 'none'
    m = re.match(r"<class '([\w.]+)'>", tag)
    if not m:
        return 'none'
    return QUALIFIED.get(m.group(1), m.group(1).split('.')[-1])


def tag_resolves(d):
    """Library probe: does type_to_class know the dictionary's 'class' tag?"""
    from pmutt.io.json import type_to_class
    try:
        type_to_class(d['class'])
        return True
    except Exception:
        return False


def kind_of(o):
    if o is _MISSING:
        return 'missing'
    if isinstance(o, dict):
        return 'dict'
    if is_pmutt_obj(o):
        return 'obj'
    return 'other'


_MISSING = object()


def children(o, slot):
    """Children of a real object in one schema slot as a list ([] for None);
    None when the attribute is absent or is not an object / list of things."""
    v = getattr(o, SLOT_ATTR.get((short_class(o), slot), slot), _MISSING)
    if v is _MISSING:
        return None
    if v is None:
        return []
    if isinstance(v, (list, tuple)):
        return list(v)
    if hasattr(v, 'tolist') and not is_pmutt_obj(v):
        try:
            return list(v.tolist())
        except Exception:
            return None
    return [v]


def proj(v, depth=0):
    """Attribute value -> small JSON-able structure for TLC (strings, Dec2 numbers, tuples)."""
    import numpy as np
    if v is _MISSING:
        return ['missing']
    if v is None:
        return ['none']
    if isinstance(v, (bool, np.bool_)):
        return ['b', bool(v)]
    if isinstance(v, str):
        return ['s', v]
    if isinstance(v, (int, float, np.integer, np.floating)):
        x = float(v)
        if math.isnan(x) or math.isinf(x):
            return ['nf', repr(x)]
        return ['n', to_dec2(x)]
    if isinstance(v, np.ndarray):
        if v.dtype == object or v.ndim == 0:
            return ['o', 'ndarray:%s:%d' % (v.dtype, v.ndim)]
        return ['l', [proj(x, depth + 1) for x in v.tolist()]]
    if isinstance(v, (list, tuple)):
        return ['l', [proj(x, depth + 1) for x in v]]
    if isinstance(v, dict):
        return ['d', [[str(k), proj(v[k], depth + 1)] for k in sorted(v, key=str)]]
    return ['o', type(v).__name__]


def _num_result(val):
    import numpy as np
    try:
        arr = np.ravel(np.asarray(val, dtype=float))
    except Exception:
        return {'raised': False, 'err': 'type:' + type(val).__name__, 'nf': [], 'vals': []}
    nf, vals = [], []
    for x in arr.tolist():
        if math.isnan(x):
            nf.append('nan'); vals.append([0, 0, 0])
        elif math.isinf(x):
            nf.append('inf' if x > 0 else '-inf'); vals.append([0, 0, 0])
        else:
            nf.append('ok'); vals.append(to_dec2(x))
    return {'raised': False, 'err': '', 'nf': nf, 'vals': vals}


def call_getter(o, name, kwargs):
    import warnings
    fn = getattr(o, name, None)
    if fn is None:
        return {'raised': True, 'err': 'NoSuchGetter', 'nf': [], 'vals': []}
    try:
        sig = inspect.signature(fn)
        if any(p.kind == p.VAR_KEYWORD for p in sig.parameters.values()):
            kw = dict(kwargs)
        else:
            kw = {k: v for k, v in kwargs.items() if k in sig.parameters}
    except (TypeError, ValueError):
        kw = dict(kwargs)
    try:
        with warnings.catch_warnings():
            warnings.simplefilter('ignore')
            return _num_result(fn(**kw))
    except Exception as ex:                 # the getter's own behaviour, compared as such
        return {'raised': True, 'err': type(ex).__name__, 'nf': [], 'vals': []}


def nasa9_temperatures(o):
    try:
        wins = sorted((float(n.T_low), float(n.T_high)) for n in o.nasas)
    except Exception:
        return []
    pts = []
    for lo, hi in wins[:4]:
        pts += [lo, 0.5 * (lo + hi)]
    if wins:
        pts.append(wins[min(len(wins), 4) - 1][1])
    return pts


def child_signature(x):
    """Short identity of one child (class and its own scalar labels): the ORDER of the children of a
    list slot is compared through the sequence of these."""
    if isinstance(x, dict):
        return 'dict:' + tag_class(x.get('class'))
    parts = [type(x).__name__]
    for a in ('name', 'id', 'name_i', 'name_j', 'T_low', 'T_high', 'HoRT_ref', 'einstein_temperature'):
        v = getattr(x, a, None)
        if isinstance(v, (str, int, float)) and not isinstance(v, bool):
            parts.append('%s=%r' % (a, v))
    return '|'.join(parts)


THERMO = ['get_q', 'get_CvoR', 'get_CpoR', 'get_UoRT', 'get_HoRT', 'get_SoR', 'get_FoRT', 'get_GoRT']
RXN = ['get_delta_HoRT', 'get_delta_SoR', 'get_delta_GoRT', 'get_delta_CpoR', 'get_Keq',
       'get_HoRT_act', 'get_GoRT_act', 'get_SoR_act', 'get_A']


# the dimensional wrappers (units forwarded; per-mass units need the composition)
DIMENSIONAL = [('get_H:kJ/mol', 'get_H', {'units': 'kJ/mol'}), ('get_S:J/mol/K', 'get_S', {'units': 'J/mol/K'}),
               ('get_G:eV', 'get_G', {'units': 'eV'}), ('get_Cp:J/g/K', 'get_Cp', {'units': 'J/g/K'})]


def getter_plan(cls):
    """[(label, method, extra kwargs)] for one class; state-point kwargs are added by the caller."""
    if cls in ('EmptyMode', 'ConstantMode', 'FreeTrans', 'HarmonicVib', 'QRRHOVib', 'EinsteinVib',
               'DebyeVib', 'RigidRotor', 'EmptyNucl', 'GasPressureAdj', 'PiecewiseCovEffect'):
        return [(g, g, {}) for g in THERMO]
    if cls == 'GroundStateElec':
        return [(g, g, {}) for g in THERMO] + [('get_q:full', 'get_q', {'ignore_q_elec': False})]
    if cls == 'StatMech':
        return ([(g, g, {}) for g in THERMO] + [('get_EoRT', 'get_EoRT', {})] + DIMENSIONAL +
                [('get_HoRT:verbose', 'get_HoRT', {'verbose': True}),
                 ('get_SoR:no_references', 'get_SoR', {'use_references': False}),
                 ('get_EoRT:ZPE', 'get_EoRT', {'include_ZPE': True}),
                 ('get_q:noZPE', 'get_q', {'include_ZPE': False})])
    if cls in ('Nasa', 'Shomate', 'Nasa9'):
        return [(g, g, {}) for g in ('get_CpoR', 'get_HoRT', 'get_SoR', 'get_GoRT')] + DIMENSIONAL
    if cls == 'SingleNasa9':
        return [(g, g, {}) for g in ('get_CpoR', 'get_HoRT', 'get_SoR')]
    if cls == 'ExtendedLSR':
        return [(g, g, {}) for g in ('get_UoRT', 'get_HoRT', 'get_GoRT', 'get_SoR')]
    if cls == 'References':
        return [('get_HoRT', 'get_HoRT', {'descriptors': {'H': 2, 'O': 1}})]
    if cls == 'LSR':
        return [(g, g, {}) for g in ('get_UoRT', 'get_HoRT', 'get_GoRT', 'get_SoR')]
    if cls in ('Reaction', 'ChemkinReaction', 'SurfaceReaction'):
        out = [(g, g, {}) for g in RXN]
        out += [(g + ':rev', g, {'rev': True}) for g in ('get_delta_HoRT', 'get_GoRT_act')]
        out += [('get_delta_H:kcal/mol', 'get_delta_H', {'units': 'kcal/mol'}),
                ('get_delta_G:kJ/mol:rev', 'get_delta_G', {'units': 'kJ/mol', 'rev': True}),
                ('get_G_act:eV', 'get_G_act', {'units': 'eV'}),
                ('get_delta_GoRT:act', 'get_delta_GoRT', {'act': True}),
                ('get_E_act:kcal/mol', 'get_E_act', {'units': 'kcal/mol'}),
                ('get_HoRT_state:products', 'get_HoRT_state', {'state': 'products'})]
        return out
    if cls == 'IdealGasEOS':
        return [('get_V', 'get_V', {}), ('get_T', 'get_T', {}), ('get_P', 'get_P', {}), ('get_n', 'get_n', {})]
    if cls == 'vanDerWaalsEOS':
        return [('get_Vm', 'get_Vm', {}), ('get_P', 'get_P', {}), ('get_T', 'get_T', {}),
                ('get_Tc', 'get_Tc', {}), ('get_Pc', 'get_Pc', {}), ('get_Vc', 'get_Vc', {})]
    return []


# --------------------------------------------------------------------------
# walking original and decoded objects along the abstract tree
# --------------------------------------------------------------------------
class Walker:
    def __init__(self, schema, attrs):
        self.schema = schema
        self.attrs = attrs

    def shape(self, o, node):
        """Discrete projection of a real value along the abstract tree (S->C comparison)."""
        k = kind_of(o)
        if k != 'obj':
            return {'kind': k, 'c': tag_class(o.get('class')) if k == 'dict' else 'none',
                    'tagok': bool(k == 'dict' and tag_resolves(o))}
        out = {'kind': 'obj', 'c': short_class(o), 'k': {}}
        if short_class(o) != node['c']:
            return out
        slots = node['k'] if isinstance(node['k'], dict) else {}
        for sl in self.schema[node['c']]:
            kids = children(o, sl['s'])
            want = slots.get(sl['s'], [])
            if kids is None:
                out['k'][sl['s']] = 'absent'
            elif len(kids) != len(want):
                out['k'][sl['s']] = 'len:%d' % len(kids)
            else:
                out['k'][sl['s']] = [self.shape(x, w) for x, w in zip(kids, want)]
        return out

    def expected_shape(self, node):
        slots = node['k'] if isinstance(node['k'], dict) else {}
        return {'kind': 'obj', 'c': node['c'],
                'k': {sl['s']: [self.expected_shape(w) for w in slots.get(sl['s'], [])]
                      for sl in self.schema[node['c']]}}

    def first_diff(self, exp, got, cls_parent=None, slot=None):
        """Location of the first difference between two shapes (tags of a ReplayState mismatch)."""
        if got.get('kind') != 'obj':
            return {'class': exp['c'], 'attr': '<node>', 'parent': cls_parent or '', 'slot': slot or '',
                    'got': got.get('kind'), 'tagok': bool(got.get('tagok'))}
        if got['c'] != exp['c']:
            return {'class': exp['c'], 'attr': '<class>', 'got': got['c']}
        for s, want in exp['k'].items():
            g = got['k'].get(s)
            if not isinstance(g, list):
                return {'class': exp['c'], 'attr': s, 'got': g}
            for w, x in zip(want, g):
                d = self.first_diff(w, x, exp['c'], s)
                if d:
                    return d
        return None

    def node_events(self, act, orig, dec, node, path=(), parent='', slot='', sp=0):
        """Events for one decode: a `node` line per visited node (pre-order), then `getters`."""
        evs, pairs = [], []
        self._walk(act, orig, dec, node, list(path), parent, slot, evs, pairs)
        for p, cls, o1, o2 in pairs:
            plan = getter_plan(cls)
            if not plan:
                continue
            items = []
            for label, meth, extra in plan:
                kw = dict(STATE_POINTS[sp])
                kw.update(extra)
                items.append([label, call_getter(o1, meth, kw), call_getter(o2, meth, kw)])
            if cls == 'Nasa9':
                # temperatures ON the bounds shared by two windows and inside every window
                for j, T in enumerate(nasa9_temperatures(o1)):
                    for meth in ('get_CpoR', 'get_HoRT', 'get_SoR'):
                        kw = dict(STATE_POINTS[sp])
                        kw['T'] = T
                        items.append(['%s@T%d' % (meth, j), call_getter(o1, meth, kw), call_getter(o2, meth, kw)])
            evs.append({'ev': 'getters', 'act': act, 'path': p, 'cls': cls, 'items': items})
        return evs

    def _walk(self, act, orig, dec, node, path, parent, slot, evs, pairs):
        c = node['c']
        if short_class(orig) != c:
            raise core.MachineryError('built object %s does not match abstract class %s' % (short_class(orig), c))
        k = kind_of(dec)
        ev = {'ev': 'node', 'act': act, 'path': list(path), 'cls': c, 'kind': k,
              'gotcls': short_class(dec) if k == 'obj' else (tag_class(dec.get('class')) if k == 'dict' else type(dec).__name__),
              'tagok': bool(k == 'dict' and tag_resolves(dec)), 'parent': parent, 'slot': slot,
              'slots': [], 'attrs': []}
        evs.append(ev)
        if k != 'obj' or short_class(dec) != c:
            return
        for a in self.attrs[c]:
            v1 = getattr(orig, a, _MISSING)
            v2 = getattr(dec, a, _MISSING)
            feeds = a not in LABELS
            if c == 'StatMech' and a == 'elements':
                feeds = getattr(orig, 'references', None) is not None
            ev['attrs'].append([a, feeds, proj(v1), proj(v2)])
        pairs.append((list(path), c, orig, dec))
        slots = node['k'] if isinstance(node['k'], dict) else {}
        for sl in self.schema[c]:
            want = slots.get(sl['s'], [])
            k1 = children(orig, sl['s'])
            if k1 is None or len(k1) != len(want):
                raise core.MachineryError('built %s.%s has %r children, abstract tree has %d'
                                          % (c, sl['s'], None if k1 is None else len(k1), len(want)))
            k2 = children(dec, sl['s'])
            ev['slots'].append([sl['s'], len(want), -1 if k2 is None else len(k2),
                                [child_signature(x) for x in k1], [child_signature(x) for x in (k2 or [])]])
            if k2 is None or len(k2) != len(want):
                continue
            for i, (w, o1, o2) in enumerate(zip(want, k1, k2)):
                self._walk(act, o1, o2, w, path + [sl['s'], str(i)], c, sl['s'], evs, pairs)

    def renode_events(self, dec, node, path=()):
        """(path, kind, class) of a later decode of the same dictionary, for Repeatable."""
        out = []
        k = kind_of(dec)
        out.append({'ev': 'renode', 'path': list(path), 'cls': node['c'], 'kind': k,
                    'gotcls': short_class(dec) if k == 'obj' else (tag_class(dec.get('class')) if k == 'dict' else type(dec).__name__)})
        if k != 'obj' or short_class(dec) != node['c']:
            return out
        slots = node['k'] if isinstance(node['k'], dict) else {}
        for sl in self.schema[node['c']]:
            want = slots.get(sl['s'], [])
            k2 = children(dec, sl['s'])
            if k2 is None or len(k2) != len(want):
                continue
            for i, (w, o2) in enumerate(zip(want, k2)):
                out.extend(self.renode_events(o2, w, list(path) + [sl['s'], str(i)]))
        return out


# --------------------------------------------------------------------------
# the caller's dictionary
# --------------------------------------------------------------------------
def _token(v):
    if isinstance(v, dict):
        return '{dict}'
    if isinstance(v, (list, tuple)):
        return '[list %d: %s]' % (len(v), ','.join(_token(x) if isinstance(x, (dict, list, tuple)) or is_pmutt_obj(x)
                                                    else 'v' for x in v))
    if is_pmutt_obj(v):
        return '<obj %s>' % short_class(v)
    try:
        return json.dumps(v)
    except Exception:
        return '<%s>' % type(v).__name__


def shallow(d):
    """One dictionary level as a string: its keys and, per key, the scalar or the kind of container."""
    if not isinstance(d, dict):
        return _token(d)
    parts = []
    for key in sorted(d, key=str):
        v = d[key]
        if isinstance(v, (list, tuple)) and not any(isinstance(x, (dict, list, tuple)) or is_pmutt_obj(x) for x in v):
            tok = json.dumps(list(v))
        else:
            tok = _token(v)
        parts.append('%s=%s' % (json.dumps(str(key)), tok))
    return '{' + '; '.join(parts) + '}'


def dict_events(act, before, after, path=()):
    """One `dictnode` line per dictionary of `before` (pre-order) with the shallow projection of
    the dictionary found at the same place afterwards."""
    out = [{'ev': 'dictnode', 'act': act, 'path': list(path), 'cls': tag_class(before.get('class')),
            'before': shallow(before), 'after': shallow(after)}]
    if not isinstance(after, dict):
        return out
    for key in sorted(before, key=str):
        b = before[key]
        a = after.get(key, _MISSING)
        if isinstance(b, dict):
            if isinstance(a, dict):
                out.extend(dict_events(act, b, a, list(path) + [str(key)]))
        elif isinstance(b, list) and isinstance(a, list) and len(a) == len(b):
            for i, (bb, aa) in enumerate(zip(b, a)):
                if isinstance(bb, dict) and isinstance(aa, dict):
                    out.extend(dict_events(act, bb, aa, list(path) + [str(key), str(i)]))
    return out


# --------------------------------------------------------------------------
# lifecycle
# --------------------------------------------------------------------------
def where_raised(ex):
    """Class whose to_dict / from_dict / __init__ raised (innermost pmutt frame with cls/self)."""
    tb = ex.__traceback__
    found = 'unknown'
    while tb is not None:
        fr = tb.tb_frame
        if fr.f_code.co_name in ('from_dict', 'to_dict'):
            if 'cls' in fr.f_locals and isinstance(fr.f_locals['cls'], type):
                found = fr.f_locals['cls'].__name__
            elif 'self' in fr.f_locals:
                found = type(fr.f_locals['self']).__name__
        tb = tb.tb_next
    return found


def unencodable(o, node, schema):
    """Class of the deepest node of a real object that the library's encoder refuses
    (diagnosis of a raising Encode / Reencode; tags only)."""
    from pmutt.io.json import pmuttEncoder
    if not is_pmutt_obj(o):
        return None
    slots = node['k'] if isinstance(node['k'], dict) else {}
    for sl in schema.get(short_class(o), []):
        kids = children(o, sl['s']) or []
        for x, w in zip(kids, slots.get(sl['s'], [])):
            r = unencodable(x, w, schema)
            if r:
                return r
    try:
        json.dumps(o, cls=pmuttEncoder)
        return None
    except Exception:
        return short_class(o)


def preload():
    import importlib
    for m in ('pmutt.io.json', 'pmutt.statmech', 'pmutt.statmech.lsr', 'pmutt.empirical.nasa',
              'pmutt.empirical.shomate', 'pmutt.empirical.references', 'pmutt.mixture.cov', 'pmutt.chemkin',
              'pmutt.reaction', 'pmutt.reaction.bep', 'pmutt.reaction.phasediagram', 'pmutt.omkm.reaction',
              'pmutt.eos', 'pmutt.examples'):
        importlib.import_module(m)


def tree_of(o, schema):
    """Abstract tree of a real object (objects that were not built from a TLC tree)."""
    c = short_class(o)
    if c not in schema or not is_pmutt_obj(o):
        raise core.MachineryError('object of class %s is outside the schema' % c)
    k = {}
    for sl in schema[c]:
        kids = children(o, sl['s'])
        if kids is None:
            raise core.MachineryError('%s.%s is not readable' % (c, sl['s']))
        k[sl['s']] = [tree_of(x, schema) for x in kids]
    return {'c': c, 'k': k}


def _extra_lsr_floats(rnd):
    from pmutt.statmech.lsr import LSR
    return LSR(slope=_f(rnd, 0.1, 0.9), intercept=_f(rnd, -20., 20.), reaction=_f(rnd, -60., -5.),
               surf_species=_f(rnd, -5., 5.), gas_species=_f(rnd, -5., 5.), notes='from floats')


def _extra_reaction_unnamed(rnd):
    from pmutt.reaction import Reaction
    from pmutt.statmech import StatMech, ConstantMode
    a = StatMech(trans_model=ConstantMode(H=_f(rnd, -3., 3.), G=_f(rnd, -3., 3.)))
    b = StatMech(trans_model=ConstantMode(H=_f(rnd, -3., 3.), G=_f(rnd, -3., 3.)))
    return Reaction(reactants=[a], reactants_stoich=[1.], products=[b], products_stoich=[2.])


def _example(name):
    def get(rnd):
        import importlib
        return getattr(importlib.import_module('pmutt.examples'), name)
    return get


def _extra_gas_noadj(cls_name, phase):
    """Gas species (given phase spelling) whose automatic pressure adjustment was switched off."""
    def get(rnd):
        tree = {'c': cls_name, 'k': {'model': [], 'cat_site': [], 'misc_models': [],
                                     'nasas': [{'c': 'SingleNasa9', 'k': []}, {'c': 'SingleNasa9', 'k': []}]}}
        b = Builder(_EXTRA_SCHEMA, rnd)
        b._plain = 1          # hand-made objects: no automatic sharing of equal subtrees
        b._phase_option = lambda has_adj, need_str: (phase, False)
        return b.build(tree)
    return get


def _extra_references(state, inside_statmech):
    def get(rnd):
        b = Builder(_EXTRA_SCHEMA, rnd)
        b._plain = 1          # hand-made objects: no automatic sharing of equal subtrees
        ref = {'c': 'Reference', 'k': {'model': [_min_statmech()], 'misc_models': []}}
        refs = [b.build(ref), b.build(ref), b.build(ref)]
        base = [{'H': 2}, {'O': 2}, {'H': 2, 'O': 1}]
        for i, x in enumerate(refs):
            x.elements = dict(base[i])
            x.T_ref = 298.15
        obj = make_references(refs, rnd, state)
        if not inside_statmech:
            return obj
        sm = b.build(_min_statmech())
        sm.references = obj
        sm.elements = {'H': 2, 'O': 2}
        return sm
    return get


def _min_statmech():
    leaf = lambda c: [{'c': c, 'k': []}]
    return {'c': 'StatMech', 'k': {'trans_model': leaf('FreeTrans'), 'vib_model': leaf('HarmonicVib'),
                                   'rot_model': leaf('RigidRotor'), 'elec_model': leaf('GroundStateElec'),
                                   'nucl_model': leaf('EmptyNucl'), 'references': [], 'misc_models': []}}


_EXTRA_SCHEMA = {}           # filled by run_lifecycle (the schema comes from TLC)
EXTRAS = {'lsr_floats': _extra_lsr_floats, 'reaction_unnamed': _extra_reaction_unnamed}
for _c, _ph in (('Nasa', 'G'), ('Nasa', 'Gas'), ('Shomate', 'GAS'), ('Nasa9', 'G'), ('Shomate', 'gas')):
    EXTRAS['gas_noadj:%s:%s' % (_c, _ph)] = _extra_gas_noadj(_c, _ph)
def _extra_nasa9(n, how):
    def get(rnd):
        tree = {'c': 'Nasa9', 'k': {'nasas': [{'c': 'SingleNasa9', 'k': []}] * n, 'model': [], 'misc_models': []}}
        b = Builder(_EXTRA_SCHEMA, rnd)
        b._plain = 1          # hand-made objects: no automatic sharing of equal subtrees
        b._hint = lambda c, slot, node: {}
        obj = b.b_Nasa9({'nasas': [b.build(t) for t in tree['k']['nasas']], 'misc_models': []}, {'order': how})
        return obj
    return get


for _n, _how in ((2, 'descending'), (3, 'descending'), (3, 'shuffled'), (4, 'shuffled'), (4, 'ascending')):
    EXTRAS['nasa9:%d:%s' % (_n, _how)] = _extra_nasa9(_n, _how)
def _extra_shared(kind):
    """The same sub-object used in several places: a species in two reactions and on both sides of
    one, one References object behind every species, one BEP as the transition state of two reactions."""
    def get(rnd):
        from pmutt.reaction import Reaction, Reactions
        from pmutt.omkm.reaction import SurfaceReaction
        b = Builder(_EXTRA_SCHEMA, rnd)
        b._plain = 1          # hand-made objects: no automatic sharing of equal subtrees
        a, c, d = b.build(_min_statmech()), b.build(_min_statmech()), b.build(_min_statmech())
        if kind == 'species':
            r1 = Reaction(reactants=[a], reactants_stoich=[1.], products=[c], products_stoich=[1.])
            r2 = Reaction(reactants=[c, a], reactants_stoich=[1., 2.], products=[d, a], products_stoich=[1., 1.],
                          transition_state=[a], transition_state_stoich=[1.])
            return Reactions([r1, r2])
        if kind == 'references':
            ref = {'c': 'Reference', 'k': {'model': [_min_statmech()], 'misc_models': []}}
            refs = [b.build(ref), b.build(ref)]
            for i, x in enumerate(refs):
                x.elements = [{'H': 2}, {'O': 2}][i]
                x.T_ref = 298.15
            shared = make_references(refs, rnd, 'fitted')
            for x in (a, c, d):
                x.references = shared
                x.elements = {'H': 2, 'O': 1}
            return Reactions([Reaction(reactants=[a, c], reactants_stoich=[1., 1.], products=[d], products_stoich=[2.])])
        bep = b.build({'c': 'OmkmBEP', 'k': []})
        rs = [SurfaceReaction(reactants=[x], reactants_stoich=[1.], products=[d], products_stoich=[1.],
                              transition_state=[bep], transition_state_stoich=[1.], direction=dr, id=i)
              for x, dr, i in ((a, 'cleavage', 'r_1'), (c, 'synthesis', 'r_2'))]
        return Reactions(rs)
    return get


def _extra_unnamed_statmech(rnd):
    from pmutt.statmech import StatMech
    return StatMech()                                  # every argument at its default


for _k in ('species', 'references', 'bep'):
    EXTRAS['shared:%s' % _k] = _extra_shared(_k)
EXTRAS['statmech_defaults'] = _extra_unnamed_statmech
for _st in ('explicit', 'stale'):
    EXTRAS['references:%s' % _st] = _extra_references(_st, False)
    EXTRAS['statmech_references:%s' % _st] = _extra_references(_st, True)
for _n in ('O2_nasa', 'H2_shomate', 'H2_ref', 'H2O_ref', 'refs', 'H2O_statmech', 'H2O_TS_statmech', 'rxn'):
    EXTRAS['example:' + _n] = _example(_n)


def run_lifecycle(case, schema, attrs):
    """Build the object of one abstract tree and take it through the lifecycle.
    Returns (events, mismatches)."""
    from pmutt.io.json import pmuttEncoder, json_to_pmutt
    obs = {}
    rnd = FalsyRandom(case['seed'])
    rnd.falsy = case.get('falsy')
    rnd.flavor = case.get('flavor')
    walker = Walker(schema, attrs)
    if 'extra' in case:
        _EXTRA_SCHEMA.clear()
        _EXTRA_SCHEMA.update(schema)
        obj = copy.deepcopy(EXTRAS[case['extra']](rnd))
        tree = tree_of(obj, schema)
    else:
        tree = case['tree']
        builder = Builder(schema, rnd)
        obj = builder.build(tree)
        obs['_shared'] = builder.shared
        obs['_fallbacks'] = builder.fallbacks
    events = [{'ev': 'begin', 'root': tree['c']}]
    mism = []
    exp_shape = walker.expected_shape(tree)
    text = None
    dict_given = dict0 = None
    decoded = _MISSING
    n_load = 0
    for step, name in enumerate(case['life']):
        call = {'ev': 'call', 'name': name, 'raised': False, 'err': '', 'where': '', 'skipped': False}
        try:
            if name == 'Encode':
                text = json.dumps(obj, cls=pmuttEncoder)
                call['istext'] = isinstance(text, str)
                events.append(call)
                continue
            if name == 'Reencode':
                if not is_pmutt_obj(decoded) or walker.first_diff(exp_shape, walker.shape(decoded, tree)):
                    call['skipped'] = True
                    events.append(call)
                    break
                text = json.dumps(decoded, cls=pmuttEncoder)
                call['istext'] = isinstance(text, str)
                events.append(call)
                continue
            if name == 'Load':
                decoded = json.loads(text, object_hook=json_to_pmutt)
                n_load += 1
                act = 'load' if 'Reencode' not in case['life'][:step] else 'load2'
                events.append(call)
                events.extend(walker.node_events(act, obj, decoded, tree, sp=step % 2))
            elif name == 'DecodeDict':
                dict_given = json.loads(text)
                dict0 = copy.deepcopy(dict_given)
                decoded = json_to_pmutt(dict_given)
                act = 'dict'
                events.append(call)
                events.extend(walker.node_events(act, obj, decoded, tree, sp=step % 2))
                events.extend(dict_events(act, dict0, dict_given))
            elif name == 'DecodeAgain':
                decoded = json_to_pmutt(dict_given)
                act = 'again'
                events.append(call)
                events.extend(walker.renode_events(decoded, tree))
                events.extend(dict_events(act, dict0, dict_given))
            else:
                raise core.MachineryError('unknown call %r' % name)
        except core.MachineryError:
            raise
        except Exception as ex:
            call['raised'] = True
            call['err'] = type(ex).__name__
            call['where'] = where_raised(ex)
            if name in ('Encode', 'Reencode') and call['where'] == 'unknown':
                call['where'] = unencodable(obj if name == 'Encode' else decoded, tree, schema) or 'unknown'
            call['msg'] = str(ex)[:200]
            events.append(call)
            mism.append({'step': step, 'call': name, 'tags': {'class': call['where'], 'attr': '<raise>'},
                         'raised': '%s: %s' % (type(ex).__name__, str(ex)[:200])})
            if name in ('Load', 'DecodeDict') and 'Reencode' not in case['life'][:step]:
                obs.setdefault(name, 'error')
            break
        if name in ('Load', 'DecodeDict'):
            # (S->C) TLC says the decoded tree equals the original tree
            got_shape = walker.shape(decoded, tree)
            if 'Reencode' not in case['life'][:step]:
                obs.setdefault(name, got_shape)
            d = walker.first_diff(exp_shape, got_shape)
            if d:
                mism.append({'step': step, 'call': name, 'tags': d})
    return events, mism, obs


def predicted_shape(p, node, schema):
    """Outcome predicted by Cases_JsonRoundTrip (pinned tables) in the format of Walker.shape."""
    if p == 'same':
        return Walker(schema, {}).expected_shape(node)
    if p.get('kind') == 'error':
        return 'error'
    if p.get('kind') == 'dict':
        return {'kind': 'dict', 'c': p.get('c', 'none')}
    out = {'kind': 'obj', 'c': p['c'], 'k': {}}
    slots = node['k'] if isinstance(node['k'], dict) else {}
    pk = p['k'] if isinstance(p.get('k'), dict) else {}
    for sl in schema[node['c']]:
        want = slots.get(sl['s'], [])
        got = pk.get(sl['s'], [])
        if len(got) != len(want):
            out['k'][sl['s']] = 'len:%d' % len(got)
        else:
            out['k'][sl['s']] = [predicted_shape(x, w, schema) for x, w in zip(got, want)]
    return out


def strip_shape(sh):
    """Drop the fields the model does not predict (tagok) from an observed shape."""
    if not isinstance(sh, dict):
        return sh
    if sh.get('kind') != 'obj':
        return {'kind': sh.get('kind'), 'c': sh.get('c', 'none')}
    return {'kind': 'obj', 'c': sh['c'],
            'k': {s: ([strip_shape(x) for x in v] if isinstance(v, list) else v) for s, v in sh.get('k', {}).items()}}
