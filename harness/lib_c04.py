"""Helpers of the C04 check: builders of real pMuTT objects for the cells emitted by
spec/UnitsWrap.tla and the concrete values of the options.

Everything here only *constructs inputs* (objects, temperatures, pressures,
coverages) for the real library.  No judgement is made here.
"""
import math

# compositions over the elements whose abridged standard atomic weight is undisputed
COMPS = [('H2O', {'H': 2, 'O': 1}), ('NH3', {'N': 1, 'H': 3}), ('N2O', {'N': 2, 'O': 1}),
         ('HNO3', {'H': 1, 'N': 1, 'O': 3}), ('O2', {'O': 2}), ('H2', {'H': 2}),
         ('N2', {'N': 2}), ('NO2', {'N': 1, 'O': 2}), ('H2O2', {'H': 2, 'O': 2})]
_AW = {'H': 1.008, 'N': 14.007, 'O': 15.999}          # only to give FreeTrans a plausible mass

H2O_LOW = [4.04618796e+00, -6.87238823e-04, 2.79722240e-06, -1.42318006e-09, 2.34551159e-13,
           -3.02826236e+04, -2.50036531e-01]
H2O_HIGH = [2.41854323e+00, 3.35448922e-03, -9.66398101e-07, 1.34441829e-10, -7.18940063e-15,
            -2.97582484e+04, 8.37839787e+00]
H2O_SHOMATE = [30.092, 6.832514, 6.793435, -2.53448, 0.082139, -250.881, 223.3967, -241.8264]

T_RANGE = {'Nasa': (250., 2800.), 'Nasa9': (250., 5000.), 'Shomate': (520., 1650.),
           'StatMech': (150., 1500.), 'mode': (150., 1500.)}


def cov_model(name, rnd):
    from pmutt.mixture.cov import PiecewiseCovEffect
    return PiecewiseCovEffect(name_i=name, name_j=name, intervals=[0., 0.25, 0.6],
                              slopes=[rnd.uniform(5., 30.), rnd.uniform(-30., -5.), rnd.uniform(5., 40.)])


def statmech(name, comp, rnd, refs, cov):
    from pmutt.statmech import StatMech, trans, vib, rot, elec, nucl
    from pmutt.empirical.references import References
    mw = sum(_AW[e] * n for e, n in comp.items())
    kw = {}
    if refs:
        kw['references'] = References(offset={e: rnd.uniform(-3., 3.) for e in ('H', 'N', 'O')},
                                      descriptor='elements', T_ref=298.15)
    if cov:
        kw['misc_models'] = [cov_model(name, rnd)]
    return StatMech(name=name,
                    trans_model=trans.FreeTrans(n_degrees=3, molecular_weight=mw),
                    vib_model=vib.HarmonicVib(vib_wavenumbers=[rnd.uniform(300., 3800.) for _ in range(3)]),
                    rot_model=rot.RigidRotor(symmetrynumber=rnd.choice([1, 2, 3]),
                                             rot_temperatures=[rnd.uniform(1., 40.) for _ in range(3)],
                                             geometry='nonlinear'),
                    elec_model=elec.GroundStateElec(potentialenergy=rnd.uniform(-30., -1.),
                                                    spin=rnd.choice([0., 0.5, 1.])),
                    nucl_model=nucl.EmptyNucl(),
                    elements=dict(comp), **kw)


def _pert(vals, rnd, rel=0.05):
    return [v * (1. + rnd.uniform(-rel, rel)) for v in vals]


def nasa(name, comp, rnd, cov, phase='G'):
    import numpy as np
    from pmutt.empirical.nasa import Nasa
    return Nasa(name=name, elements=dict(comp), phase=phase, T_low=200., T_mid=1000., T_high=3000.,
                a_low=np.array(_pert(H2O_LOW, rnd)), a_high=np.array(_pert(H2O_HIGH, rnd)),
                misc_models=[cov_model(name, rnd)] if cov else None)


def nasa9(name, comp, rnd, cov, phase='G'):
    import numpy as np
    from pmutt.empirical.nasa import Nasa9, SingleNasa9

    def coeffs():
        return np.array([rnd.uniform(-1e4, 1e4), rnd.uniform(-100., 100.), rnd.uniform(2., 6.),
                         rnd.uniform(-1e-3, 1e-3), rnd.uniform(-1e-7, 1e-7), rnd.uniform(-1e-11, 1e-11),
                         rnd.uniform(-1e-15, 1e-15), rnd.uniform(-4e4, -1e4), rnd.uniform(-5., 10.)])
    nasas = [SingleNasa9(T_low=200., T_high=1000., a=coeffs()),
             SingleNasa9(T_low=1000., T_high=6000., a=coeffs())]
    return Nasa9(name=name, nasas=nasas, elements=dict(comp), phase=phase,
                 misc_models=[cov_model(name, rnd)] if cov else None)


# value of the fitting unit in J/mol/K (own constants; only rescales the input coefficients)
OWN_UNIT_IN_J = {'J/mol/K': 1.0, 'kJ/mol/K': 1.0e3, 'cal/mol/K': 4.184, 'eV/K': 96485.33}


def shomate(name, comp, rnd, cov, phase='G', own='J/mol/K'):
    import numpy as np
    from pmutt.empirical.shomate import Shomate
    own = 'J/mol/K' if own in (None, 'none') else own
    a = np.array(_pert(H2O_SHOMATE, rnd)) / OWN_UNIT_IN_J[own]
    return Shomate(name=name, elements=dict(comp), phase=phase, T_low=500., T_high=1700.,
                   a=a, units=own,
                   misc_models=[cov_model(name, rnd)] if cov else None)


def mode(kind, rnd):
    import numpy as np
    from pmutt.statmech import EmptyMode, ConstantMode, trans, vib, rot, elec, nucl
    wn = [rnd.uniform(200., 3800.) for _ in range(rnd.randint(1, 5))]
    if kind == 'FreeTrans':
        return trans.FreeTrans(n_degrees=rnd.choice([3, 3, 2]), molecular_weight=rnd.uniform(2., 120.))
    if kind == 'HarmonicVib':
        return vib.HarmonicVib(vib_wavenumbers=wn)
    if kind == 'QRRHOVib':
        return vib.QRRHOVib(vib_wavenumbers=np.array(wn), Bav=rnd.choice([1e-44, 5e-45]), v0=100., alpha=4)
    if kind == 'EinsteinVib':
        return vib.EinsteinVib(einstein_temperature=rnd.uniform(100., 1500.), interaction_energy=rnd.uniform(-1., 0.))
    if kind == 'DebyeVib':
        return vib.DebyeVib(debye_temperature=rnd.uniform(100., 1500.), interaction_energy=rnd.uniform(-1., 0.))
    if kind == 'RigidRotor':
        return rot.RigidRotor(symmetrynumber=rnd.choice([1, 2, 3, 12]),
                              rot_temperatures=[rnd.uniform(0.5, 60.) for _ in range(3)], geometry='nonlinear')
    if kind == 'GroundStateElec':
        return elec.GroundStateElec(potentialenergy=rnd.uniform(-40., 2.), spin=rnd.choice([0., 0.5, 1.]))
    if kind == 'EmptyNucl':
        return nucl.EmptyNucl()
    if kind == 'EmptyMode':
        return EmptyMode()
    if kind == 'ConstantMode':
        return ConstantMode(q=rnd.uniform(0.5, 5.), Cv=rnd.uniform(0., 5e-4), Cp=rnd.uniform(0., 6e-4),
                            U=rnd.uniform(-2., 2.), H=rnd.uniform(-2., 2.), S=rnd.uniform(0., 3e-3),
                            F=rnd.uniform(-3., 1.), G=rnd.uniform(-3., 1.))
    raise ValueError(kind)


def species(kind, name, comp, rnd, refs, cov, phase='gas', own='none'):
    ph = 'S' if phase == 'condensed' else 'G'
    if kind == 'StatMech':
        return statmech(name, comp, rnd, refs, cov)
    if kind == 'Nasa':
        return nasa(name, comp, rnd, cov, phase=ph)
    if kind == 'Nasa9':
        return nasa9(name, comp, rnd, cov, phase=ph)
    if kind == 'Shomate':
        return shomate(name, comp, rnd, cov, phase=ph, own=own)
    raise ValueError(kind)


def reaction(cls, kind, rnd, refs, cov):
    if cls == 'Reaction':
        from pmutt.reaction import Reaction as K
    elif cls == 'ChemkinReaction':
        from pmutt.reaction import ChemkinReaction as K
    else:
        from pmutt.omkm.reaction import SurfaceReaction as K
    sp = [species(kind, nm, rnd.choice(COMPS)[1], rnd, refs, cov) for nm in ('A', 'B', 'C', 'TS')]
    st = lambda: rnd.choice([1., 1., 2., 0.5])
    return K(reactants=[sp[0], sp[1]], reactants_stoich=[st(), st()], products=[sp[2]],
             products_stoich=[st()], transition_state=[sp[3]], transition_state_stoich=[1.])


def build(cell, rnd):
    """-> (object, composition dict for the per-mass forms, T-range key)"""
    cls = cell['cls']
    zero = {'H': 0, 'N': 0, 'O': 0}
    if cell['species'] != 'none':
        return reaction(cls, cell['species'], rnd, cell['refs'], cell['cov']), zero, cell['species']
    if cls in ('StatMech', 'Nasa', 'Nasa9', 'Shomate'):
        name, comp = rnd.choice(COMPS)
        full = dict(zero)
        full.update(comp)
        return species(cls, name, comp, rnd, cell['refs'], cell['cov'], cell['phase'], cell['own']), full, cls
    return mode(cls, rnd), zero, 'mode'


def option_values(cell, rnd, trange):
    """concrete values of every keyword either call can receive"""
    import numpy as np
    lo, hi = T_RANGE[trange]
    if cell['shape'] == 'array':
        T = np.array(sorted(rnd.uniform(lo, hi) for _ in range(3)))
    else:
        T = rnd.uniform(lo, hi)
    return {'T': T, 'P': math.exp(rnd.uniform(math.log(0.02), math.log(50.))),
            'x': rnd.uniform(0.05, 0.95), 'S_elements': True, 'use_references': False,
            'verbose': True, 'include_ZPE': True, 'rev': True, 'act': True,
            'del_m': rnd.choice([2, 0, None]), 'state': cell['state']}


DEFAULT_SYMBOLS = {'T0': 298.15, 'one_bar': 1.0}
