"""Helpers of the C04 check: builders of real pMuTT objects for the cells emitted by
spec/UnitsWrap.tla and the concrete values of the options.

Everything here only *constructs inputs* (objects, temperatures, pressures,
coverages) for the real library.  No judgement is made here.
"""
import math

# compositions over the elements whose abridged standard atomic weight is undisputed
COMPS = [('H2O', {'H': 2, 'O': 1}), ('NH3', {'N': 1, 'H': 3}), ('N2O', {'N': 2, 'O': 1}),
         ('HNO3', {'H': 1, 'N': 1, 'O': 3}), ('O2', {'O': 2}), ('H2', {'H': 2}),
         ('N2', {'N': 2}), ('NO2', {'N': 1, 'O': 2}), ('H2O2', {'H': 2, 'O': 2})]
_AW = {'H': 1.008, 'N': 14.007, 'O': 15.999, 'C': 12.011}          # only to give FreeTrans a plausible mass

H2O_LOW = [4.04618796e+00, -6.87238823e-04, 2.79722240e-06, -1.42318006e-09, 2.34551159e-13,
           -3.02826236e+04, -2.50036531e-01]
H2O_HIGH = [2.41854323e+00, 3.35448922e-03, -9.66398101e-07, 1.34441829e-10, -7.18940063e-15,
            -2.97582484e+04, 8.37839787e+00]
H2O_SHOMATE = [30.092, 6.832514, 6.793435, -2.53448, 0.082139, -250.881, 223.3967, -241.8264]

T_RANGE = {'Nasa': (250., 2800.), 'Nasa9': (250., 5000.), 'Shomate': (520., 1650.),
           'StatMech': (150., 1500.), 'mode': (150., 1500.), 'SingleNasa9': (250., 950.)}

# the gas constant as documented (only to rescale the input coefficients of a Shomate
# polynomial into the unit it is stored in)
R_DOC = {'J/mol/K': 8.3144598, 'kJ/mol/K': 8.3144598e-3, 'L kPa/mol/K': 8.3144598,
         'cm3 kPa/mol/K': 8.3144598e3, 'm3 Pa/mol/K': 8.3144598, 'cm3 MPa/mol/K': 8.3144598,
         'm3 bar/mol/K': 8.3144598e-5, 'L bar/mol/K': 8.3144598e-2, 'L torr/mol/K': 62.363577,
         'cal/mol/K': 1.9872036, 'kcal/mol/K': 1.9872036e-3, 'L atm/mol/K': 0.082057338,
         'cm3 atm/mol/K': 82.057338, 'eV/K': 8.6173303e-5, 'Eh/K': 3.1668105e-06,
         'Ha/K': 3.1668105e-06}

# documented default value of every option (passed explicitly in the `expl` cells)
DEFAULT_VALUES = {'P': 1.0, 'x': 0.0, 'S_elements': False, 'use_references': True,
                  'verbose': False, 'include_ZPE': False, 'rev': False, 'act': False, 'del_m': 1}
SCALAR_T_TYPES = ['float', 'int', 'npfloat', 'npint', 'T0']
ARRAY_T_TYPES = ['ndarray', 'list', 'tuple', 'intarray', 'len1']
P_VARIANTS = ['random', 'one', 'int', 'npfloat']
X_VARIANTS = ['random', 'zero', 'breakpoint', 'int_one', 'top']
COMP_VARIANTS = ['ints', 'zero_counts', 'float_counts']


def cov_model(name, rnd):
    from pmutt.mixture.cov import PiecewiseCovEffect
    return PiecewiseCovEffect(name_i=name, name_j=name, intervals=[0., 0.25, 0.6],
                              slopes=[rnd.uniform(5., 30.), rnd.uniform(-30., -5.), rnd.uniform(5., 40.)])


def statmech(name, comp, rnd, refs, cov):
    from pmutt.statmech import StatMech, trans, vib, rot, elec, nucl
    from pmutt.empirical.references import References
    mw = sum(_AW[e] * n for e, n in comp.items())
    # the translational mass is the user's own number (rounded, isotopic, a dimer's): it is NOT
    # the mass the per-mass forms divide by (that is the composition's, _get_R_adj(units, elements))
    mw = rnd.choice([float(round(mw)) + 1., mw + 1.006, 2. * mw])
    kw = {}
    if refs:
        kw['references'] = References(offset={e: rnd.uniform(-3., 3.) for e in ('H', 'N', 'O')},
                                      descriptor='elements', T_ref=298.15)
    if cov:
        kw['misc_models'] = [cov_model(name, rnd)]
    return StatMech(name=name,
                    trans_model=trans.FreeTrans(n_degrees=3, molecular_weight=mw),
                    vib_model=vib.HarmonicVib(vib_wavenumbers=[rnd.uniform(300., 3800.) for _ in range(3)]),
                    rot_model=rot.RigidRotor(symmetrynumber=rnd.choice([1, 2, 3]),
                                             rot_temperatures=[rnd.uniform(1., 40.) for _ in range(3)],
                                             geometry='nonlinear'),
                    elec_model=elec.GroundStateElec(potentialenergy=rnd.uniform(-30., -1.),
                                                    spin=rnd.choice([0., 0.5, 1.])),
                    nucl_model=nucl.EmptyNucl(),
                    elements=comp, **kw)


def _pert(vals, rnd, rel=0.05):
    return [v * (1. + rnd.uniform(-rel, rel)) for v in vals]


def nasa(name, comp, rnd, cov, phase='G'):
    import numpy as np
    from pmutt.empirical.nasa import Nasa
    # the two segments are independent sets: Cp/R, H/RT and S/R all jump visibly (~1) at T_mid
    a_high = _pert(H2O_HIGH, rnd)
    a_high[0] += rnd.uniform(0.5, 1.5)
    a_high[5] += rnd.uniform(400., 1200.)
    a_high[6] += rnd.uniform(0.5, 2.)
    return Nasa(name=name, elements=comp, phase=phase, T_low=200., T_mid=1000., T_high=3000.,
                a_low=np.array(_pert(H2O_LOW, rnd)), a_high=np.array(a_high),
                misc_models=[cov_model(name, rnd)] if cov else None)


def nasa9(name, comp, rnd, cov, phase='G'):
    import numpy as np
    from pmutt.empirical.nasa import Nasa9, SingleNasa9

    def coeffs():
        return np.array([rnd.uniform(-1e4, 1e4), rnd.uniform(-100., 100.), rnd.uniform(2., 6.),
                         rnd.uniform(-1e-3, 1e-3), rnd.uniform(-1e-7, 1e-7), rnd.uniform(-1e-11, 1e-11),
                         rnd.uniform(-1e-15, 1e-15), rnd.uniform(-4e4, -1e4), rnd.uniform(-5., 10.)])
    nasas = [SingleNasa9(T_low=200., T_high=1000., a=coeffs()),
             SingleNasa9(T_low=1000., T_high=6000., a=coeffs())]
    return Nasa9(name=name, nasas=nasas, elements=comp, phase=phase,
                 misc_models=[cov_model(name, rnd)] if cov else None)


def shomate(name, comp, rnd, cov, phase='G', own='J/mol/K'):
    import numpy as np
    from pmutt.empirical.shomate import Shomate
    own = 'J/mol/K' if own in (None, 'none') else own
    a = np.array(_pert(H2O_SHOMATE, rnd)) * (R_DOC[own] / R_DOC['J/mol/K'])
    return Shomate(name=name, elements=comp, phase=phase, T_low=500., T_high=1700.,
                   a=a, units=own,
                   misc_models=[cov_model(name, rnd)] if cov else None)


def mode(kind, rnd):
    import numpy as np
    from pmutt.statmech import EmptyMode, ConstantMode, trans, vib, rot, elec, nucl
    wn = [rnd.uniform(200., 3800.) for _ in range(rnd.randint(1, 5))]
    if kind == 'FreeTrans':
        return trans.FreeTrans(n_degrees=rnd.choice([3, 3, 2]), molecular_weight=rnd.uniform(2., 120.))
    if kind == 'HarmonicVib':
        return vib.HarmonicVib(vib_wavenumbers=wn)
    if kind == 'QRRHOVib':
        return vib.QRRHOVib(vib_wavenumbers=np.array(wn), Bav=rnd.choice([1e-44, 5e-45]), v0=100., alpha=4)
    if kind == 'EinsteinVib':
        return vib.EinsteinVib(einstein_temperature=rnd.uniform(100., 1500.), interaction_energy=rnd.uniform(-1., 0.))
    if kind == 'DebyeVib':
        return vib.DebyeVib(debye_temperature=rnd.uniform(100., 1500.), interaction_energy=rnd.uniform(-1., 0.))
    if kind == 'RigidRotor':
        return rot.RigidRotor(symmetrynumber=rnd.choice([1, 2, 3, 12]),
                              rot_temperatures=[rnd.uniform(0.5, 60.) for _ in range(3)], geometry='nonlinear')
    if kind == 'GroundStateElec':
        return elec.GroundStateElec(potentialenergy=rnd.uniform(-40., 2.), spin=rnd.choice([0., 0.5, 1.]))
    if kind == 'EmptyNucl':
        return nucl.EmptyNucl()
    if kind == 'EmptyMode':
        return EmptyMode()
    if kind == 'ConstantMode':
        return ConstantMode(q=rnd.uniform(0.5, 5.), Cv=rnd.uniform(0., 5e-4), Cp=rnd.uniform(0., 6e-4),
                            U=rnd.uniform(-2., 2.), H=rnd.uniform(-2., 2.), S=rnd.uniform(0., 3e-3),
                            F=rnd.uniform(-3., 1.), G=rnd.uniform(-3., 1.))
    raise ValueError(kind)


def aux(kind, name, comp, rnd):
    """auxiliary model classes that inherit the generic dimensional getters"""
    import numpy as np
    if kind == 'GasPressureAdj':
        from pmutt.empirical import GasPressureAdj
        return GasPressureAdj()
    if kind == 'PiecewiseCovEffect':
        return cov_model(name, rnd)
    if kind == 'Reference':
        from pmutt.empirical.references import Reference
        return Reference(name=name, elements=comp, T_ref=298.15, HoRT_ref=rnd.uniform(-200., 50.))
    if kind == 'References':
        from pmutt.empirical.references import References
        return References(offset={e: rnd.uniform(-3., 3.) for e in ('H', 'N', 'O')},
                          descriptor='elements', T_ref=298.15)
    if kind == 'SingleNasa9':
        from pmutt.empirical.nasa import SingleNasa9
        return SingleNasa9(T_low=200., T_high=1000.,
                           a=np.array([rnd.uniform(-1e4, 1e4), rnd.uniform(-100., 100.), rnd.uniform(2., 6.),
                                       rnd.uniform(-1e-3, 1e-3), rnd.uniform(-1e-7, 1e-7), rnd.uniform(-1e-11, 1e-11),
                                       rnd.uniform(-1e-15, 1e-15), rnd.uniform(-4e4, -1e4), rnd.uniform(-5., 10.)]))
    raise ValueError(kind)


def comp_variant(comp, variant):
    """the same composition written differently: zero counts of absent elements, float counts"""
    if variant == 'zero_counts':
        out = dict(comp)
        out['C'] = 0
        for e in ('H', 'N', 'O'):
            out.setdefault(e, 0)
        return out
    if variant == 'float_counts':
        return {e: float(n) for e, n in comp.items()}
    return dict(comp)


ELEMENT_EDITS = ['add_element', 'change_count', 'callers_dict']


def edit_elements(obj, given, how):
    """edit the composition IN PLACE (no re-assignment of the attribute); `given` is the dict
    the caller handed to the constructor"""
    if how == 'add_element':
        missing = [e for e in ('N', 'O', 'H') if not obj.elements.get(e)]
        e = missing[0] if missing else 'N'
        obj.elements[e] = obj.elements.get(e, 0) + 1
    elif how == 'change_count':
        e = sorted(k for k, v in obj.elements.items() if v)[0]
        obj.elements[e] = obj.elements[e] + 2
    else:
        e = sorted(k for k, v in given.items() if v)[-1]
        given[e] = given[e] + 1


def current_comp(obj):
    return {e: obj.elements.get(e, 0) for e in ('H', 'N', 'O')}


def sibling_comp(comp):
    """same element symbols, different stoichiometry (for a species of the SAME name)"""
    out = dict(comp)
    first = sorted(out)[0]
    out[first] = out[first] + 1
    return out


def species(kind, name, comp, rnd, refs, cov, phase='gas', own='none'):
    ph = 'S' if phase == 'condensed' else 'G'
    if kind == 'StatMech':
        return statmech(name, comp, rnd, refs, cov)
    if kind == 'Nasa':
        return nasa(name, comp, rnd, cov, phase=ph)
    if kind == 'Nasa9':
        return nasa9(name, comp, rnd, cov, phase=ph)
    if kind == 'Shomate':
        return shomate(name, comp, rnd, cov, phase=ph, own=own)
    raise ValueError(kind)


def reaction(cls, kind, rnd, refs, cov):
    """kind: species the reaction is built from ('StatMech' | 'Nasa')"""
    if cls == 'Reaction':
        from pmutt.reaction import Reaction as K
    elif cls == 'ChemkinReaction':
        from pmutt.reaction import ChemkinReaction as K
    else:
        from pmutt.omkm.reaction import SurfaceReaction as K
    sp = [species(kind, nm, dict(rnd.choice(COMPS)[1]), rnd, refs, cov) for nm in ('A', 'B', 'C', 'TS')]
    st = lambda: rnd.choice([1., 1., 2., 0.5])
    return K(reactants=[sp[0], sp[1]], reactants_stoich=[st(), st()], products=[sp[2]],
             products_stoich=[st()], transition_state=[sp[3]], transition_state_stoich=[1.])


def build(cell, rnd, comp_var='ints', sibling_of=None):
    """-> (object, composition {H, N, O} for the per-mass forms, T-range key, (name, comp))
    sibling_of = (name, comp): a second species of the same name and element symbols but
    different stoichiometry."""
    cls = cell['cls']
    zero = {'H': 0, 'N': 0, 'O': 0}
    if cell['isrxn']:
        return reaction(cls, cell['species'], rnd, cell['refs'], cell['cov']), zero, cell['species'], None
    if cell['mass'] or cls == 'References':
        if sibling_of is not None:
            name, comp = sibling_of[0], sibling_comp(sibling_of[1])
        else:
            name, comp = rnd.choice(COMPS)
        full = dict(zero)
        full.update(comp)
        given = comp_variant(comp, comp_var)
        if cls in ('Reference', 'References'):
            obj = aux(cls, name, given, rnd)
            return obj, (full if cls == 'Reference' else zero), 'mode', (name, comp, given)
        return species(cls, name, given, rnd, cell['refs'], cell['cov'], cell['phase'], cell['own']), \
            full, cls, (name, comp, given)
    if cell['isaux']:
        return aux(cls, 'A', {}, rnd), zero, ('SingleNasa9' if cls == 'SingleNasa9' else 'mode'), None
    return mode(cls, rnd), zero, 'mode', None


# temperatures ON the bounds of the polynomial segments: range ends and every interior bound
# (T_RANGE key -> bounds of the objects built above)
BREAKS = {'Nasa': [200., 1000., 3000.], 'Nasa9': [200., 1000., 6000.], 'Shomate': [500., 1700.]}


def draw_T(shape, ttype, rnd, lo, hi, breaks=None, pick=0):
    """a temperature (or temperatures) in every accepted type / container.  With `breaks`
    the temperatures sit exactly on segment bounds: an array holds all of them (plus one
    interior value), a scalar is the bound number `pick` (interior bounds first)."""
    import numpy as np
    if shape == 'array':
        n = 1 if ttype == 'len1' else 3
        vals = sorted(rnd.uniform(lo, hi) for _ in range(n))
        if breaks:
            inner = breaks[1:-1] or breaks
            vals = [inner[pick % len(inner)]] if n == 1 else sorted(set(breaks) | {float(int(vals[0]))})
        if ttype == 'list':
            return list(vals)
        if ttype == 'tuple':
            return tuple(vals)
        if ttype == 'intarray':
            return np.array([int(v) for v in vals])
        return np.array(vals)
    v = rnd.uniform(lo, hi)
    if breaks:
        order = breaks[1:-1] + [breaks[0], breaks[-1]]
        v = order[pick % len(order)]
    if ttype == 'int':
        return int(v)
    if ttype == 'npfloat':
        return np.float64(v)
    if ttype == 'npint':
        return np.int64(int(v))
    if ttype == 'T0':
        return 298.15
    return v


def option_values(cell, rnd, trange, ttype='float', pvar='random', xvar='random', descriptors=None):
    """concrete values of every keyword either call can receive"""
    import numpy as np
    lo, hi = T_RANGE[trange]
    T = draw_T(cell['shape'], ttype, rnd, lo, hi)
    P = math.exp(rnd.uniform(math.log(0.02), math.log(50.)))
    P = {'random': P, 'one': 1.0, 'int': rnd.choice([2, 3, 7]), 'npfloat': np.float64(P)}[pvar]
    x = rnd.uniform(0.05, 0.95)
    x = {'random': x, 'zero': 0.0, 'breakpoint': 0.25, 'int_one': 1, 'top': 1.0}[xvar]
    vals = {'T': T, 'P': P, 'x': x, 'S_elements': True, 'use_references': False,
            'verbose': True, 'include_ZPE': True, 'rev': True, 'act': True,
            'del_m': rnd.choice([2, 0, None]), 'state': cell['state'],
            'descriptors': dict(descriptors or {})}
    for o in cell['atdefault']:
        vals[o] = DEFAULT_VALUES[o]
    return vals


DEFAULT_SYMBOLS = {'T0': 298.15, 'one_bar': 1.0}
