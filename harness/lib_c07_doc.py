"""C07, part 3: the thermo/kinetics documents (write_thermo_yaml, write_cti).

A case is a small recipe ({'part': 'doc', 'seed': ..., knobs}); `build` expands it
deterministically into an abstract model M (phases, species, reactions, BEPs, lateral
interactions, unit system, T, P, Motz-Wise) and the real pmutt objects.  `execute` writes both
files, tokenises them (yaml.safe_load / ast), projects every entry next to the model's own value
in the requested units and records one event per entry; spec/Trace_OmkmDoc.tla judges.
"""
import ast
import json
import random
import re

from harness import core
from harness.core import to_dec

SHARDS = 6
UNIT_KEYS = ('length', 'time', 'quantity', 'energy', 'act_energy', 'pressure', 'mass')
DEFAULT_UNITS = {'length': 'cm', 'time': 's', 'quantity': 'molec', 'energy': 'cal',
                 'act_energy': 'cal/mol', 'pressure': 'bar', 'mass': 'kg'}
# the unit table (pmutt.constants.convert_unit) per Units attribute.  act_energy: only the per-mole
# units work with constants.R; lengths 'A' and 'km' have no cubed unit in the table, so they are used
# for models without a bulk phase (its density needs <length>3)
UNIT_VALUES = {'length': ['cm', 'm', 'inch', 'ft', 'A', 'km'],
               'time': ['s', 'min', 'hr', 'ms', 'ns', 'ps', 'day', 'yr'],
               'quantity': ['mol', 'molec', 'molecule', 'particle'],
               'energy': ['J', 'kJ', 'cal', 'kcal', 'eV', 'Eh', 'Ha', 'L atm'],
               'act_energy': ['kcal/mol', 'cal/mol', 'J/mol', 'kJ/mol'],
               'pressure': ['Pa', 'kPa', 'MPa', 'atm', 'bar', 'mmHg', 'torr', 'psi'],
               'mass': ['kg', 'g', 'amu', 'lbs']}
ATOMS = ['H', 'C', 'N', 'O']
METALS = ['Ru', 'Pt', 'Ni', 'Cu']
YAML11_WORDS = {'ON', 'NO', 'OFF', 'YES', 'Y', 'TRUE', 'FALSE', 'NULL'}


def codes(s):
    return [ord(ch) for ch in s]


# --------------------------------------------------------------------------
# the abstract model
# --------------------------------------------------------------------------
def _comp_name(comp):
    return ''.join('%s%s' % (el, '' if n == 1 else n) for el, n in comp.items())


def _rand_coeffs(rnd, n):
    mags = [1.0, 1e-3, 1e-6, 1e-9, 1e-12, 1e3, 1.0, 1e2, 1.0]
    return [round(rnd.uniform(-9, 9), rnd.choice([3, 6, 9])) * mags[i % len(mags)] for i in range(n)]


def _thermo(rnd, family):
    T_low = rnd.choice([200., 298., 300.])
    T_high = rnd.choice([1000., 1500., 3000.])
    if family == 'nasa':
        return {'T_low': T_low, 'T_mid': rnd.choice([500., 642.8571428571429, 800.]), 'T_high': T_high,
                'a_low': _rand_coeffs(rnd, 7), 'a_high': _rand_coeffs(rnd, 7)}
    if family == 'nasa9':
        n = rnd.choice([1, 2, 2, 3])
        cuts = [T_low] + sorted(rnd.sample([450., 600., 750., 900.], n - 1)) + [T_high]
        return {'segments': [{'T_low': cuts[i], 'T_high': cuts[i + 1], 'a': _rand_coeffs(rnd, 9)}
                             for i in range(n)], 'shuffle': rnd.random() < 0.3}
    return {'T_low': T_low, 'T_high': T_high, 'a': _rand_coeffs(rnd, 8)}


def abstract_model(case):
    """Deterministic expansion of the recipe into the abstract model M."""
    rnd = random.Random(case['seed'])
    big = case.get('size', 'small') in ('big', 'huge')
    M = {'T': rnd.choice([300., 500., 650.5, 900.]), 'P': case.get('P', 1.0),
         'motz': rnd.random() < 0.5, 'T_pass': True, 'motz_pass': True}
    if case.get('T') == 'default':                  # T / use_motz_wise left at the writers' defaults
        M['T'], M['T_pass'] = 300., False
    elif case.get('T') == 'int':
        M['T'] = 500
    if case.get('motz') == 'default':
        M['motz'], M['motz_pass'] = False, False
    # ---- units: every value the unit table supports for each of the seven keys (rotating with `uk`),
    # given as omkm Units, cantera Units, a full dict, a partial dict (other keys at their defaults)
    # or not at all
    uform = case.get('units_form') or rnd.choice(['obj', 'obj', 'dict', 'absent'])
    if uform == 'absent':
        units = dict(DEFAULT_UNITS)
    elif 'uk' in case:
        k = case['uk']
        units = {key: UNIT_VALUES[key][(k * mult + off) % len(UNIT_VALUES[key])]
                 for key, mult, off in (('length', 1, 0), ('time', 3, 0), ('quantity', 1, 0), ('energy', 5, 0),
                                        ('act_energy', 3, 0), ('pressure', 7, 0), ('mass', 1, 1))}
        rnd.random()
    else:
        units = {'length': rnd.choice(['cm', 'm']), 'time': 's',
                 'quantity': rnd.choice(['mol', 'molec']),
                 'energy': rnd.choice(['kcal', 'cal', 'J', 'kJ']),
                 'act_energy': rnd.choice(['kcal/mol', 'cal/mol', 'J/mol', 'kJ/mol']),
                 'pressure': rnd.choice(['atm', 'bar', 'Pa']), 'mass': rnd.choice(['g', 'kg'])}
    M['units_given'] = sorted(units)
    if uform == 'pdict':
        keep = [key for i, key in enumerate(UNIT_KEYS) if (case.get('uk', 0) >> i) & 1] or ['length']
        units = {key: (units[key] if key in keep else DEFAULT_UNITS[key]) for key in UNIT_KEYS}
        M['units_given'] = sorted(keep)
    M['units'], M['units_form'] = units, uform
    # ---- phases
    n_iface = case.get('n_iface', rnd.choice([1, 1, 2]))
    has_bulk = case.get('bulk', rnd.random() < 0.6)
    if units['length'] in ('A', 'km') or n_iface == 3:      # no <length>3 in the unit table; <= 4 phases
        has_bulk = False
    PN = ({'gas': 'gas-1', 'bulk': 'bulk_Ru', 'T': 'Pt-111', 'S': 'step_2', 'F': 'facet(211)'}
          if case.get('phase_names') == 'odd' else
          {'gas': 'gas', 'bulk': 'bulk', 'T': 'terrace', 'S': 'step', 'F': 'facet'})
    M['pn'] = PN
    note = ((lambda n: 'phase %s of the test model: low-index facet, pre-covered, as-prepared; well-defined '
                       'step-edge sites and a close-packed terrace (re-written by pMuTT)' % n)
            if case.get('notes') else (lambda n: None))
    phases = [{'name': PN['gas'], 'kind': 'gas', 'note': note('gas')}]
    if has_bulk:
        phases.append({'name': PN['bulk'], 'kind': 'solid', 'density': rnd.choice([12.4, 8.9, 21.45]),
                       'note': note('bulk')})
    tags = ['T', 'S', 'F'][:n_iface]
    metal = rnd.choice(METALS)
    for t in tags:
        phases.append({'name': PN[t], 'kind': 'iface', 'tag': t, 'note': note(t),
                       'site_density': rnd.choice([2.1671e-9, 4.4385e-10, 1.5e-9, 3.0e-9]),
                       'parents': [PN['gas']] + ([PN['bulk']] if has_bulk else [])})
    M['phases'] = phases
    M['parents_as'] = case.get('parents', 'names')
    # ---- species: fragments and their combinations
    rich = case.get('names') == 'rich'
    if case.get('tiny'):
        big = False
    nfrag = 2 if case.get('tiny') else 5 if case.get('size') == 'huge' else (rnd.randint(4, 5) if rich else rnd.randint(2, 5 if big else 3))
    frags = []
    while len(frags) < nfrag:
        comp = {}
        for el in rnd.sample(ATOMS, rnd.randint(1, 2)):
            comp[el] = rnd.randint(1, 3)
        # names that YAML 1.1 loaders read as booleans / null are left out (see notes/C07.md)
        if comp not in frags and _comp_name(comp).upper() not in YAML11_WORDS:
            frags.append(comp)

    def add(a, b):
        out = dict(a)
        for k, v in b.items():
            out[k] = out.get(k, 0) + v
        return out
    combos = []
    for i in range(nfrag):
        for j in range(i, nfrag):
            c = add(frags[i], frags[j])
            if c not in frags and c not in [x[0] for x in combos] \
                    and _comp_name(c).upper() not in YAML11_WORDS:
                combos.append((c, i, j))
    rnd.shuffle(combos)
    combos = combos[:(7 if case.get('size') == 'huge' else rnd.randint(5, 9) if rich
                      else rnd.randint(1, 6 if big else 2))]
    # species names as real mechanisms write them (names='rich'): hyphens between letters (cis-, trans-,
    # -top, -bridge, -fcc), hyphens next to digits (CH3-CH2 style: the two fragments joined), underscores,
    # '*' and '+' inside the name; never blanks, commas, quotes or a leading '*'
    drnd = random.Random(case['seed'] + 17)
    table = {}

    def mname(comp):
        key = tuple(sorted(comp.items()))
        if key not in table:
            base = _comp_name(comp)
            if rich:
                parts = [c for c in combos if c[0] == comp]
                # most names carry a hyphen between letters: a wrapped field then ends many of its lines
                # next to one (a wrapper that breaks at hyphens splits such a name in two)
                style = drnd.choice(['pre', 'pre', 'presuf', 'presuf', 'suf', 'suf', 'join', 'under', 'star',
                                     'plus', 'plain'])
                if style == 'join' and parts:
                    base = '%s-%s' % (_comp_name(frags[parts[0][1]]), _comp_name(frags[parts[0][2]]))
                elif style in ('pre', 'presuf'):
                    base = drnd.choice(['cis-', 'trans-', 'iso-', 'anti-']) + base
                if style in ('suf', 'join', 'presuf'):
                    base = base + drnd.choice(['-top', '-bridge', '-fcc', '-hcp'])
                elif style == 'under':
                    base = base + drnd.choice(['_a', '_b2', '_ads'])
                elif style == 'star':
                    base = base + '*'
                elif style == 'plus':
                    base = base + '+'
                while base in table.values():
                    base += 'x'
            table[key] = base
        return table[key]
    species = []
    families = ['nasa'] if case.get('families') == 'nasa' else ['nasa', 'nasa', 'nasa9', 'shomate']

    def mk(name, comp, phase, n_sites):
        fam = rnd.choice(families)
        elements = dict(comp)
        if rnd.random() < 0.2:
            elements = {k: float(v) for k, v in elements.items()}
        sp = {'name': name, 'family': fam, 'phase': phase, 'elements': elements, 'n_sites': n_sites}
        sp.update(_thermo(rnd, fam))
        species.append(sp)
        return sp
    if case.get('tiny'):
        combos = []
    mols = frags + [c[0] for c in combos]
    gas_names = []
    for comp in mols:
        if rnd.random() < 0.7 or not gas_names or case.get('tiny'):
            gas_names.append(mk(mname(comp), comp, PN['gas'], None)['name'])
    if has_bulk:
        if not case.get('empty_bulk'):
            mk('%s(B)' % metal.upper(), {metal: 1}, PN['bulk'], None)
    for t in tags:
        ph = PN[t]
        mk('%s(%s)' % (metal.upper(), t), {metal: 1}, ph, rnd.choice([1, 1, 1.0]))
        for comp in mols:
            mk('%s(%s)' % (mname(comp), t), add(comp, {metal: 1}), ph, rnd.choice([1, 1, 2, 1.0]))
    # write-edit-write cases: every phase gets a spectator that is the SOLE carrier of an element
    # and takes part in nothing; the edit plan removes / re-adds species between the two writes
    M['edits'] = []
    if case.get('rewrite'):
        spect = {}
        for ph, nm, el in [(PN['gas'], 'AR', 'Ar')] + [(PN[t], 'K(%s)' % t, 'K') for t in tags]:
            pos = rnd.choice(['first', 'last'])
            sp = mk(nm, {el: 1}, ph, None if ph == PN['gas'] else 1)
            if pos == 'first':
                species.insert(0, species.pop())
            spect[ph] = nm
        for ph, nm in sorted(spect.items()):
            how = rnd.choice(['remove', 'pop', 'remove', 'pop', 'clear_extend', 'append', 'none'])
            M['edits'].append({'phase': ph, 'how': how, 'name': nm})
    M['species'] = species
    names = {s['name'] for s in species}
    # ---- BEPs
    beps = []
    pattern = case.get('beps')          # None | 'unnamed' | 'mixed' | 'auto_ns' | 'named'
    nbep = rnd.randint(2, 3) if pattern else rnd.randint(0, 3 if big else 2)
    slopes = rnd.sample([0.29, 0.52, 0.71, 1.0], 3)         # distinct relationships are distinct objects
    intercepts = rnd.sample([19.78, 23.23, 23.69, 5.0, 0.0], 3)
    for k in range(nbep):
        if case.get('bep_names') == 'none' or pattern == 'unnamed':
            nm = None
        elif pattern == 'mixed':
            nm = [None, 'NH-H', None][(k + case['seed']) % 3] if k < 2 else rnd.choice([None, 'C-O'])
            if k == 1 and beps[0]['name'] is None and nm is None and nbep == 2:
                nm = 'NH-H'
        elif pattern == 'auto_ns':
            nm = ['b_0000', None, 'b_0001'][(k + case['seed']) % 3]
        else:
            nm = 'BEP%d' % k
        beps.append({'name': nm, 'slope': slopes[k], 'intercept': intercepts[k],
                     'direction': rnd.choice(['cleavage', 'synthesis']),
                     'descriptor': rnd.choice(['delta_H', 'rev_delta_H'])})
    M['beps'] = beps
    # ---- reactions
    reactions = []
    ts_species = []
    want_rx = case.get('n_reactions', rnd.randint(6, 12) if pattern else rnd.randint(0, 12 if big else 5))
    if case.get('size') == 'huge':
        want_rx = rnd.randint(25, 40)

    def ids_policy():
        r = rnd.random()
        if case.get('ids') == 'auto':
            return None
        if case.get('ids') == 'collide' and r < 0.5:
            return 'r_%04d' % rnd.randint(0, 3)
        if case.get('ids') == 'int' and r < 0.6:
            return '%04d' % (len(reactions) + 3)           # given to the constructor as an int
        if r < 0.3:
            return 'u_%04d' % (len(reactions) + 1 + 10 * rnd.randint(0, 2))
        return None
    attempts = 0
    used_ids = set()
    if not tags or case.get('empty_lists'):
        want_rx = 0
    while len(reactions) < want_rx and attempts < 400:
        attempts += 1
        t = rnd.choice(tags)
        site = '%s(%s)' % (metal.upper(), t)
        kind = rnd.choice(['ads', 'ads', 'diss', 'diss', 'diss', 'assoc', 'er'])
        rid = ids_policy()
        if rid in used_ids:
            rid = None
        if rid is not None:
            used_ids.add(rid)
        rx = {'id': rid, 'ads': False, 'A': None, 'Ea': None, 'beta': None, 'stick': None,
              'direction': None, 'ts': None, 'kind': kind}
        if kind == 'ads':
            g = rnd.choice(gas_names)
            if '%s(%s)' % (g, t) not in names:
                continue
            lhs = [[1, g], [1, site]]
            if rnd.random() < 0.3 and not case.get('gas_first'):
                lhs.reverse()
            rx.update(lhs=lhs, rhs=[[1, '%s(%s)' % (g, t)]], ads=True,
                      stick=rnd.choice([None, 0.5, 0.25, 1.0]), beta=rnd.choice([None, 0, 0.5]),
                      Ea=rnd.choice([None, None, 0.0, 2.5]))
        elif kind in ('diss', 'assoc'):
            if not combos:
                continue
            c, i, j = rnd.choice(combos)
            ab, a, b = ['%s(%s)' % (mname(x), t) for x in (c, frags[i], frags[j])]
            left, right = [[1, ab], [1, site]], ([[1, a], [1, b]] if a != b else [[2, a]])
            direction = 'cleavage'
            if kind == 'assoc':
                left, right, direction = right, left, 'synthesis'
            rx.update(lhs=left, rhs=right, A=rnd.choice([None, None, 1.0e13, 9.6e17]),
                      Ea=rnd.choice([None, None, 10.631665896868167, 0.0]),
                      beta=rnd.choice([None, 1, 0.5]))
            r = rnd.random()
            if r < (0.75 if pattern else 0.35) and beps:
                # with a naming pattern every relationship gets used, by several reactions
                nbu = sum(1 for q in reactions if (q['ts'] or {}).get('kind') == 'bep')
                rx['ts'] = {'kind': 'bep', 'index': nbu % len(beps) if pattern and nbu < 2 * len(beps)
                            else rnd.randrange(len(beps))}
                rx['direction'] = direction
            elif r < 0.7:
                tsn = 'TS%d(%s)' % (len(ts_species), t)
                ts = {'name': tsn, 'family': 'nasa', 'phase': PN[t],
                      'elements': add(c, {metal: 2}), 'n_sites': 2}
                ts.update(_thermo(rnd, 'nasa'))
                ts_species.append(ts)
                rx['ts'] = {'kind': 'species', 'name': tsn}
        else:                                               # Eley-Rideal: gas + adsorbate, not an adsorption
            if not combos:
                continue
            c, i, j = rnd.choice(combos)
            g, a, ab = mname(frags[i]), '%s(%s)' % (mname(frags[j]), t), '%s(%s)' % (mname(c), t)
            if g not in gas_names:
                continue
            rx.update(lhs=[[1, a], [1, g]], rhs=[[1, ab]], A=rnd.choice([None, 1.0e13]),
                      Ea=rnd.choice([None, None, 3.0]))
        # one reaction per equation (identical reactions are the same object to organize_phases)
        if any(r['lhs'] == rx['lhs'] and r['rhs'] == rx['rhs'] for r in reactions):
            if rid is not None:
                used_ids.discard(rid)
            continue
        reactions.append(rx)
    M['reactions'] = reactions
    M['ts_species'] = ts_species
    # ---- lateral interactions
    inter = []
    for k in range(case.get('n_interactions', rnd.randint(0, 10 if big else 3))
                   if tags and not case.get('empty_lists') else 0):
        t = rnd.choice(tags)
        ads = [s['name'] for s in species if s['name'].endswith('(%s)' % t) and not s['name'].startswith('K(')]
        n = rnd.randint(1, 5 if big else 3)
        inter.append({'name_i': rnd.choice(ads), 'name_j': rnd.choice(ads),
                      'intervals': [0] + sorted(rnd.sample([0.1, 0.25, 0.5, 0.75], n - 1)) if rnd.random() < 0.5
                      else [0.0] + sorted(rnd.sample([0.1, 0.25, 0.5, 0.75], n - 1)),
                      'slopes': [rnd.choice([-52.6, -17.7, -3.0, 4.25, -20.7, 0.0]) for _ in range(n)],
                      'name': ('u_i_%04d' % (k + 20)) if rnd.random() < 0.25 else None})
    M['interactions'] = inter
    M['via'] = case.get('via') or rnd.choice(['organize', 'organize', 'direct', 'incremental'])
    if any(b['name'] is None for b in beps) and M['via'] == 'organize':
        M['via'] = 'direct'          # organize_phases compares reactions, which needs named BEPs
    M['ads_act_method'] = case.get('ads_act_method', 'get_H_act')
    M['classes'] = case.get('classes', 'omkm')
    if M['classes'] == 'cantera' and M['via'] == 'organize':
        M['via'] = 'direct'          # organize_phases only builds the omkm classes
    M['ctor'] = 'from_string' if (case.get('ctor') == 'from_string' and not rich
                                  and all(b['name'] for b in beps)) else 'init'
    M['move'] = case.get('move', '')
    M['empty_lists'] = bool(case.get('empty_lists'))
    M['omit'] = case.get('omit', '')
    return M


# --------------------------------------------------------------------------
# real objects
# --------------------------------------------------------------------------
def _mk_species(sp, phase_attr):
    import numpy as np
    from pmutt.empirical.nasa import Nasa, Nasa9, SingleNasa9
    from pmutt.empirical.shomate import Shomate
    kw = dict(name=sp['name'], elements=dict(sp['elements']), phase=phase_attr, n_sites=sp['n_sites'])
    if sp['family'] == 'nasa':
        return Nasa(T_low=sp['T_low'], T_mid=sp['T_mid'], T_high=sp['T_high'],
                    a_low=np.array(sp['a_low']), a_high=np.array(sp['a_high']), **kw)
    if sp['family'] == 'nasa9':
        segs = [SingleNasa9(T_low=s['T_low'], T_high=s['T_high'], a=np.array(s['a'])) for s in sp['segments']]
        if sp.get('shuffle'):
            segs = segs[::-1]
        return Nasa9(nasas=segs, **kw)
    return Shomate(T_low=sp['T_low'], T_high=sp['T_high'], a=np.array(sp['a']), **kw)


MOVES = [h + o for h in ('remove', 'pop', 'popneg', 'clear') for o in ('_add_first', '_remove_first')]


def _move_species(M, phases, by_name):
    """Before anything is written, species that reactions depend on (the gas species of the first
    adsorption, the site species of the first interface) make a detour through ANOTHER coexisting phase
    object and are moved back to their own phase: add-to-new-then-remove-from-old or remove-then-add, by
    remove / pop (index >= 0 or < 0) / clear.  Afterwards every phase lists what the model says."""
    how, order = M['move'].split('_', 1)
    names = []
    ads = [rx for rx in M['reactions'] if rx['ads']]
    if ads:
        names.append([n for _, n in ads[0]['lhs'] if not n.endswith(')')][0])
    sites = [s['name'] for s in M['species'] if s['phase'] in [p['name'] for p in M['phases'] if p['kind'] == 'iface']]
    if sites:
        names.append(sites[0])
    if not names:
        names.append(M['species'][0]['name'])
    for name in names:
        X = by_name[name]
        home = next(p for p in phases if name in p.species_names)
        other = next(p for p in phases if p is not home)
        home.remove_species(name)
        other.append_species(X)                              # X now lives in `other`

        def take_out():
            i = other.species_names.index(name)
            if how == 'remove':
                other.remove_species(name)
            elif how == 'pop':
                other.pop_species(i)
            elif how == 'popneg':
                other.pop_species(i - len(other.species_names))
            else:
                rest = [sp for sp in other.copy_species() if sp.name != name]
                other.clear_species()
                other.extend_species(rest)
        if order == 'add_first':
            home.append_species(X)
            take_out()
        else:
            take_out()
            home.append_species(X)


def build(M):
    """Real pmutt objects for the abstract model."""
    from pmutt import pmutt_list_to_dict
    from pmutt.io.omkm import organize_phases
    from pmutt.mixture.cov import PiecewiseCovEffect
    from pmutt.omkm.phase import IdealGas, StoichSolid, InteractingInterface
    from pmutt.omkm.reaction import BEP, SurfaceReaction
    from pmutt.omkm.units import Units
    via = M['via']
    species = [_mk_species(sp, sp['phase'] if via == 'organize' else None) for sp in M['species']]
    ts = [_mk_species(sp, sp['phase'] if via == 'organize' else None) for sp in M['ts_species']]
    by_name = pmutt_list_to_dict(species + ts)
    beps = [BEP(name=b['name'], slope=b['slope'], intercept=b['intercept'], direction=b['direction'],
                descriptor=b['descriptor']) for b in M['beps']]
    reactions = []
    for rx in M['reactions']:
        rid = int(rx['id']) if (rx['id'] or '').isdigit() else rx['id']       # '0007' is given as 7
        if M['ctor'] == 'from_string':
            sd = dict(by_name)
            sd.update({b.name: b for b in beps})
            side = lambda terms: ' + '.join('%s%s' % ('' if c == 1 else c, n) for c, n in terms)
            mid = ''
            if rx['ts'] is not None:
                mid = ' = %s' % (M['beps'][rx['ts']['index']]['name'] if rx['ts']['kind'] == 'bep' else rx['ts']['name'])
            kw = dict(id=rid, is_adsorption=rx['ads'], A=rx['A'], Ea=rx['Ea'], direction=rx['direction'])
            if rx['beta'] is not None:
                kw['beta'] = rx['beta']
            if rx['stick'] is not None:
                kw['sticking_coeff'] = rx['stick']
            reactions.append(SurfaceReaction.from_string('%s%s = %s' % (side(rx['lhs']), mid, side(rx['rhs'])), sd, **kw))
            continue
        kw = dict(reactants=[by_name[n] for _, n in rx['lhs']], reactants_stoich=[float(c) for c, _ in rx['lhs']],
                  products=[by_name[n] for _, n in rx['rhs']], products_stoich=[float(c) for c, _ in rx['rhs']],
                  id=rid, is_adsorption=rx['ads'], A=rx['A'], Ea=rx['Ea'], beta=rx['beta'],
                  sticking_coeff=rx['stick'], direction=rx['direction'])
        if rx['ts'] is not None:
            if rx['ts']['kind'] == 'bep':
                kw.update(transition_state=[beps[rx['ts']['index']]], transition_state_stoich=[1.])
            else:
                kw.update(transition_state=[by_name[rx['ts']['name']]], transition_state_stoich=[1.])
        reactions.append(SurfaceReaction(**kw))
    inter = [PiecewiseCovEffect(name_i=i['name_i'], name_j=i['name_j'], intervals=list(i['intervals']),
                                slopes=list(i['slopes']), name=i['name']) for i in M['interactions']]
    members = {p['name']: [s for s, sp in zip(species, M['species']) if sp['phase'] == p['name']]
               for p in M['phases']}
    if via == 'organize':
        pdata = []
        for p in M['phases']:
            d = {'name': p['name'],
                 'phase_type': {'gas': 'IdealGas', 'solid': 'StoichSolid', 'iface': 'InteractingInterface'}[p['kind']]}
            if p['kind'] == 'solid':
                d['density'] = p['density']
            if p['kind'] == 'iface':
                d['site_density'] = p['site_density']
                d['phases'] = list(p['parents'])
            if p.get('note') is not None:
                d['note'] = p['note']
            pdata.append(d)
        phases = organize_phases(pdata, species=species, reactions=reactions or None,
                                 interactions=inter or None)
    else:
        import pmutt.cantera.phase as cph
        Gas, Solid = (cph.IdealGas, cph.StoichSolid) if M['classes'] == 'cantera' else (IdealGas, StoichSolid)
        phases = []
        made = {}
        for p in M['phases']:
            extra = {} if p.get('note') is None else {'note': p['note']}
            mem = {} if via == 'incremental' else {'species': list(members[p['name']])}
            if p['kind'] == 'gas':
                ph = Gas(name=p['name'], **mem, **extra)
            elif p['kind'] == 'solid':
                ph = Solid(name=p['name'], density=p['density'], **mem, **extra)
            else:
                parents = [made[n] for n in p['parents']] if M['parents_as'] == 'objects' else list(p['parents'])
                ph = InteractingInterface(name=p['name'], site_density=p['site_density'], phases=parents,
                                          **mem, **extra)
            made[p['name']] = ph
            phases.append(ph)
        if via == 'incremental':
            # species added one by one, phase after phase; one of them removed and added again
            for ph, p in zip(phases, M['phases']):
                mem = members[p['name']]
                for s in mem:
                    ph.append_species(s)
                if len(mem) >= 2:
                    ph.remove_species(mem[0].name)
                    ph.pop_species(0)
                    ph.extend_species([mem[0], mem[1]])
        # reactions / interactions of each phase (what organize_phases derives)
        for ph, p in zip(phases, M['phases']):
            mine = {s['name'] for s in M['species'] + M['ts_species'] if s['phase'] == p['name']}
            rs = [r for r, rx in zip(reactions, M['reactions'])
                  if any(n in mine for _, n in rx['lhs'] + rx['rhs'])]
            if p['kind'] == 'iface':
                ph.reactions = rs or None
                its = [i for i, ii in zip(inter, M['interactions']) if ii['name_i'] in mine]
                ph.interactions = its or None
    if M['move'] and len(phases) >= 2:
        _move_species(M, phases, by_name)
    import pmutt.cantera.units as cunits
    ukw = {k: M['units'][k] for k in M['units_given']}
    units = {'absent': lambda: None, 'obj': lambda: Units(**ukw), 'cobj': lambda: cunits.Units(**ukw),
             'dict': lambda: ukw, 'pdict': lambda: ukw}[M['units_form']]()
    return {'phases': phases, 'species': species, 'reactions': reactions, 'beps': beps,
            'interactions': inter, 'units': units}


# --------------------------------------------------------------------------
# the model's own values in the requested units
# --------------------------------------------------------------------------
def _factors(units):
    from pmutt import constants as c
    u = units
    return {'fq': c.convert_unit(initial='mol', final=u['quantity']),
            'fa': c.convert_unit(initial='cm2', final='%s2' % u['length']),
            # lengths without a cubed unit in the table only occur in models without a bulk phase
            'fv': c.convert_unit(initial='cm3', final='%s3' % u['length']) if u['length'] not in ('A', 'km') else 1.0,
            'fm': c.convert_unit(initial='g', final=u['mass']),
            'fE': c.convert_unit(initial='kcal/mol', final=u['act_energy']),
            'fe': c.convert_unit(initial='kcal', final=u['energy'])}


def _segments(sp):
    if sp['family'] == 'nasa':
        return 'NASA7', [(sp['T_low'], sp['T_mid'], sp['a_low']), (sp['T_mid'], sp['T_high'], sp['a_high'])]
    if sp['family'] == 'nasa9':
        segs = sorted(sp['segments'], key=lambda s: s['T_low'])
        return 'NASA9', [(s['T_low'], s['T_high'], s['a']) for s in segs]
    return 'Shomate', [(sp['T_low'], sp['T_high'], sp['a'][:7])]


def _dsegs(segs):
    return [{'lo': to_dec(lo), 'hi': to_dec(hi), 'a': [to_dec(x) for x in a]} for lo, hi, a in segs]


def _exp_species(sp):
    model, segs = _segments(sp)
    return {'found': True, 'name': sp['name'],
            'comp': [[el, to_dec(n)] for el, n in sorted(sp['elements'].items())],
            'has_sites': sp['n_sites'] is not None,
            'sites': to_dec(sp['n_sites'] if sp['n_sites'] is not None else 0),
            'model': model, 'segs': _dsegs(segs)}


def _members(M):
    """positions (1-based) of the reactions / interactions of every interface phase, BEP use"""
    out = {}
    for p in M['phases']:
        mine = {s['name'] for s in M['species'] + M['ts_species'] if s['phase'] == p['name']}
        rx = [k + 1 for k, r in enumerate(M['reactions']) if any(n in mine for _, n in r['lhs'] + r['rhs'])]
        it = [k + 1 for k, i in enumerate(M['interactions']) if i['name_i'] in mine]
        bp = sorted({M['reactions'][k - 1]['ts']['index'] for k in rx
                     if (M['reactions'][k - 1]['ts'] or {}).get('kind') == 'bep'})
        out[p['name']] = (rx if p['kind'] == 'iface' else [], it if p['kind'] == 'iface' else [],
                          bp if p['kind'] == 'iface' else [])
    return out


def _exp_phase(M, p, f):
    sp = [s for s in M['species'] if s['phase'] == p['name']]
    els = sorted({el for s in sp for el in s['elements']})
    rx, it, bp = _members(M)[p['name']]
    u = M['units']
    return {'found': True, 'name': p['name'], 'kind': p['kind'], 'species': [s['name'] for s in sp],
            'elements': els, 'parents': p.get('parents', []),
            'sd': to_dec(p.get('site_density', 0)), 'fq': to_dec(f['fq']), 'fa': to_dec(f['fa']),
            'sd_unit': codes('%s/%s^2' % (u['quantity'], u['length'])),
            'density': to_dec(p.get('density', 0)), 'fm': to_dec(f['fm']), 'fv': to_dec(f['fv']),
            'note': (p.get('note') or '').split(),
            'rx': rx, 'inter': it, 'nbeps': len(bp),
            'bep_names': [M['beps'][k]['name'] or '' for k in bp]}


def _P_bar(M):
    from pmutt import constants as c
    return M['P'] * c.convert_unit(initial='atm', final='bar')


def _exp_reaction(M, k, rx, robj, f, units_obj):
    """The model's own rate parameters through the public getters, in the requested units."""
    u = M['units']
    T, P = M['T'], _P_bar(M)
    e = {'found': True, 'l': [[int(c), n] for c, n in rx['lhs']], 'r': [[int(c), n] for c, n in rx['rhs']],
         'id': rx['id'] or '', 'type': 'stick' if rx['ads'] else 'arr', 'motz': bool(M['motz']),
         'Ea_unit': codes(u['act_energy']), 'stick_species': '', 'err': ''}
    try:
        beta = robj.beta
        e['b'] = to_dec(beta)
        if rx['ads']:
            e['A'] = to_dec(robj.sticking_coeff)
            gas = [n for _, n in rx['lhs'] if not n.endswith(')')]
            e['stick_species'] = gas[0] if gas else ''
            Ea = (rx['Ea'] * f['fE']) if rx['Ea'] is not None else \
                getattr(robj, M['ads_act_method'])(units=u['act_energy'], T=T, P=P)
        else:
            A = rx['A'] if rx['A'] is not None else robj.get_A(
                T=T, P=P, include_entropy=False, units='%s/%s2' % (u['quantity'], u['length']))
            if rx['A'] is None:
                # witnessed from the reactant objects, not from get_A itself (seed C07-13: a reactant with
                # coefficient 2 contributes its site density twice): kb/h over (sum of stoich x site density)^(n-1)
                from pmutt import constants as c
                from pmutt.omkm.phase import InteractingInterface
                surf = [(int(st), sp.phase.site_density) for sp, st in zip(robj.reactants, robj.reactants_stoich)
                        if isinstance(getattr(sp, 'phase', None), InteractingInterface)]
                if surf:
                    sden = sum(st * sd for st, sd in surf) * c.convert_unit(initial='mol', final=u['quantity']) \
                        / c.convert_unit(initial='cm2', final='%s2' % u['length'])
                    A = c.kb('J/K') / c.h('J s') / sden ** (sum(st for st, _ in surf) - 1)
            e['A'] = to_dec(A)
            Ea = (rx['Ea'] * f['fE']) if rx['Ea'] is not None else robj.get_G_act(units=u['act_energy'], T=T, P=P)
        e['Ea'] = to_dec(Ea)
    except Exception as ex:                                 # the model itself cannot say
        e.update(A=[0, 0], b=[0, 0], Ea=[0, 0], err='%s: %s' % (type(ex).__name__, ex))
    return e


def _exp_bep(M, k, f):
    b = M['beps'][k]
    u = M['units']
    mem = {'cleavage': [], 'synthesis': []}
    for i, rx in enumerate(M['reactions']):
        if (rx['ts'] or {}).get('kind') == 'bep' and rx['ts']['index'] == k:
            mem[rx['direction']].append(i + 1)
    return {'found': True, 'id': b['name'] or '', 'slope': to_dec(b['slope']),
            'intercept': to_dec(b['intercept']), 'fE': to_dec(f['fE']), 'unit': codes(u['act_energy']),
            'direction': b['direction'], 'cleavage': mem['cleavage'], 'synthesis': mem['synthesis']}


def _exp_inter(M, it, f):
    u = M['units']
    return {'found': True, 'pair': [it['name_i'], it['name_j']],
            'thresholds': [to_dec(x) for x in it['intervals']],
            'slopes': [to_dec(x) for x in it['slopes']], 'fe': to_dec(f['fe']), 'fq': to_dec(f['fq']),
            'unit': codes('%s/%s' % (u['energy'], u['quantity'])), 'id': it['name'] or ''}


NOTFOUND = {'found': False}
_TERM = re.compile(r'^(?:(\d+(?:\.\d+)?)\s+)?(\S+)$')


def _equation(s):
    """'2 A + B <=> C' -> ([[2,'A'],[1,'B']], [[1,'C']]) ; None when it does not tokenise"""
    if not isinstance(s, str) or s.count('<=>') != 1:
        return None
    sides = []
    for side in s.split('<=>'):
        terms = []
        for t in side.split(' + '):
            m = _TERM.match(t.strip())
            if not m:
                return None
            coef = float(m.group(1)) if m.group(1) else 1.0
            if coef != int(coef):
                return None
            terms.append([int(coef), m.group(2)])
        sides.append(terms)
    return sides


def _strs(x):
    return [str(i) for i in x] if isinstance(x, (list, tuple)) else ([] if x is None else [str(x)])


def _decs(x):
    out = []
    for v in x if isinstance(x, (list, tuple)) else [x]:
        if isinstance(v, bool) or not isinstance(v, (int, float)) or not core.finite(v):
            return None
        out.append(to_dec(v))
    return out


def _num_or_text(v):
    """a scalar of the document: {'k': 'num', 'num': Dec} | {'k': 'str', 'codes': [...]} | {'k': 'other'}"""
    if isinstance(v, bool):
        return {'k': 'bool', 'num': [0, 0], 'codes': [], 'b': v}
    if isinstance(v, (int, float)) and core.finite(v):
        return {'k': 'num', 'num': to_dec(v), 'codes': [], 'b': False}
    if isinstance(v, str) and len(v) < 80:
        return {'k': 'str', 'num': [0, 0], 'codes': codes(v) if v.isascii() else [], 'b': False}
    return {'k': 'absent' if v is None else 'other', 'num': [0, 0], 'codes': [], 'b': False}


# --------------------------------------------------------------------------
# projection of the YAML document
# --------------------------------------------------------------------------
SECTION = re.compile(r'^([A-Za-z][\w-]*):', re.M)


def _segs_from_yaml(th):
    rng, data = th.get('temperature-ranges'), th.get('data')
    r, ok = _decs(rng) if isinstance(rng, list) else None, True
    segs = []
    if r is None or not isinstance(data, list) or len(r) != len(data) + 1:
        return [], False
    for k, row in enumerate(data):
        a = _decs(row) if isinstance(row, list) else None
        if a is None:
            return [], False
        segs.append({'lo': r[k], 'hi': r[k + 1], 'a': a})
    return segs, ok


def _yaml_species(ent):
    th = ent.get('thermo') if isinstance(ent.get('thermo'), dict) else {}
    segs, ok = _segs_from_yaml(th)
    comp = ent.get('composition')
    cd = []
    if isinstance(comp, dict):
        for el, n in sorted(comp.items(), key=lambda kv: str(kv[0])):
            d = _decs(n)
            if d is None:
                ok = False
            else:
                cd.append([str(el), d[0]])
    else:
        ok = False
    sites = ent.get('sites')
    sd = _decs(sites) if sites is not None else [[0, 0]]
    if sd is None or len(sd) != 1:
        ok, sd = False, [[0, 0]]
    return {'name': str(ent.get('name')), 'comp': cd, 'has_sites': sites is not None, 'sites': sd[0],
            'model': str(th.get('model')), 'segs': segs, 'shape_ok': ok,
            'extra': sorted(set(map(str, ent)) - {'name', 'composition', 'thermo', 'sites'})}


def _yaml_phase(ent):
    kind = {'ideal-gas': 'gas', 'ref-state-fixed-stoichiometry': 'solid', 'fixed-stoichiometry': 'solid',
            'surface-lateral-interaction': 'iface', 'ideal-surface': 'iface'}.get(ent.get('thermo'), '?')
    return {'name': str(ent.get('name')), 'kind': kind, 'species': _strs(ent.get('species')),
            'elements': _strs(ent.get('elements')), 'parents': [],
            'sd': _num_or_text(ent.get('site-density')), 'density': _num_or_text(None),
            'rx_form': 'kw', 'rx_kw': str(ent.get('reactions', '')), 'rx_entries': [],
            'int_form': 'kw', 'int_kw': str(ent.get('interactions', '')), 'int_entries': [],
            'beps_form': 'kw', 'beps_kw': str(ent.get('beps', '')), 'beps_names': [], 'note': [],
            'extra': sorted(set(map(str, ent)) - {'name', 'elements', 'species', 'thermo', 'kinetics',
                                                  'site-density', 'reactions', 'interactions', 'beps'})}


def _yaml_reaction(ent):
    eq = _equation(ent.get('equation'))
    rc = ent.get('sticking-coefficient') if 'sticking-coefficient' in ent else ent.get('rate-constant')
    rc = rc if isinstance(rc, dict) else {}
    mz = ent.get('Motz-Wise')
    rid = ent.get('id')
    return {'l': eq[0] if eq else [], 'r': eq[1] if eq else [], 'eq_ok': eq is not None,
            'id': rid if isinstance(rid, str) else '', 'idc': codes(rid) if isinstance(rid, str) else [],
            'type': 'stick' if 'sticking-coefficient' in ent else ('arr' if 'rate-constant' in ent else '?'),
            'A': _num_or_text(rc.get('A')), 'b': _num_or_text(rc.get('b')), 'Ea': _num_or_text(rc.get('Ea')),
            'stick_species': str(ent.get('sticking-species', '')),
            'motz': 'absent' if mz is None else ('true' if mz is True else 'false' if mz is False else 'other'),
            'extra': sorted(set(map(str, ent)) - {'equation', 'sticking-species', 'Motz-Wise', 'id',
                                                  'sticking-coefficient', 'rate-constant'})}


def _entry_codes(lst):
    return [codes(str(x)) for x in lst] if isinstance(lst, list) else []


def _yaml_bep(ent):
    rid = ent.get('id')
    return {'id': rid if isinstance(rid, str) else '', 'idc': codes(rid) if isinstance(rid, str) else [],
            'slope': _num_or_text(ent.get('slope')), 'intercept': _num_or_text(ent.get('intercept')),
            'direction': str(ent.get('direction')),
            'cleavage': _entry_codes(ent.get('cleavage-reactions')),
            'synthesis': _entry_codes(ent.get('synthesis-reactions')),
            'extra': sorted(set(map(str, ent)) - {'id', 'slope', 'intercept', 'direction',
                                                  'cleavage-reactions', 'synthesis-reactions'})}


def _yaml_inter(ent):
    rid = ent.get('id')
    th = _decs(ent.get('coverage-threshold')) if isinstance(ent.get('coverage-threshold'), list) else None
    st = ent.get('strength')
    return {'pair': _strs(ent.get('species')), 'thresholds': th or [], 'th_ok': th is not None,
            'strengths': [_num_or_text(x) for x in st] if isinstance(st, list) else [],
            'id': rid if isinstance(rid, str) else '', 'idc': codes(rid) if isinstance(rid, str) else [],
            'extra': sorted(set(map(str, ent)) - {'species', 'coverage-threshold', 'strength', 'id'})}


def project_yaml(text):
    import yaml
    out = {'loaded': False, 'sections': SECTION.findall(text), 'msg': ''}
    try:
        doc = yaml.safe_load(text)
        out['loaded'] = isinstance(doc, dict)
    except yaml.YAMLError as ex:
        out['msg'] = ('%s: %s' % (type(ex).__name__, ex))[:300]
        return out

    def lst(key):
        v = doc.get(key) if isinstance(doc, dict) else None
        return [e for e in v if isinstance(e, dict)] if isinstance(v, list) else []
    un = doc.get('units') if isinstance(doc, dict) and isinstance(doc.get('units'), dict) else {}
    out['units'] = {k: codes(str(un.get(y, ''))) for k, y in
                    (('length', 'length'), ('time', 'time'), ('quantity', 'quantity'), ('energy', 'energy'),
                     ('act_energy', 'activation-energy'), ('pressure', 'pressure'), ('mass', 'mass'))}
    out['motz'] = 'absent'
    out['phases'] = [_yaml_phase(e) for e in lst('phases')]
    out['species'] = [_yaml_species(e) for e in lst('species')]
    out['reactions'] = [_yaml_reaction(e) for e in lst('reactions')]
    out['beps'] = [_yaml_bep(e) for e in lst('beps')]
    out['interactions'] = [_yaml_inter(e) for e in lst('interactions')]
    return out


# --------------------------------------------------------------------------
# projection of the CTI document (CTI is Python syntax: tokenised with ast)
# --------------------------------------------------------------------------
def _node(n):
    if isinstance(n, ast.Constant):
        return n.value
    if isinstance(n, (ast.List, ast.Tuple)):
        return [_node(e) for e in n.elts]
    if isinstance(n, ast.UnaryOp) and isinstance(n.op, (ast.USub, ast.UAdd)) and isinstance(n.operand, ast.Constant) \
            and isinstance(n.operand.value, (int, float)):
        return -n.operand.value if isinstance(n.op, ast.USub) else n.operand.value
    if isinstance(n, ast.Call) and isinstance(n.func, ast.Name):
        return {'call': n.func.id, 'args': [_node(a) for a in n.args],
                'kw': {k.arg: _node(k.value) for k in n.keywords if k.arg}}
    return {'bad': type(n).__name__}


def _cti_species(d):
    kw = d['kw']
    th = kw.get('thermo')
    polys = th if isinstance(th, list) else [th]
    segs, ok, model = [], True, '?'
    for p in polys:
        if not (isinstance(p, dict) and p.get('call') in ('NASA', 'Shomate') and len(p['args']) == 2):
            ok = False
            continue
        rng, a = _decs(p['args'][0]) if isinstance(p['args'][0], list) else None, \
            _decs(p['args'][1]) if isinstance(p['args'][1], list) else None
        if rng is None or a is None or len(rng) != 2:
            ok = False
            continue
        segs.append({'lo': rng[0], 'hi': rng[1], 'a': a})
        model = 'Shomate' if p['call'] == 'Shomate' else ('NASA7' if len(a) == 7 else 'NASA9' if len(a) == 9 else '?')
    cd = []
    atoms = kw.get('atoms')
    if isinstance(atoms, str):
        for tok in atoms.split():
            el, _, n = tok.partition(':')
            try:
                cd.append([el, to_dec(float(n))])
            except ValueError:
                ok = False
        cd.sort()
    else:
        ok = False
    size = kw.get('size')
    sd = _decs(size) if size is not None else [[0, 0]]
    if sd is None:
        ok, sd = False, [[0, 0]]
    return {'name': str(kw.get('name')), 'comp': cd, 'has_sites': size is not None, 'sites': sd[0],
            'model': model, 'segs': segs, 'shape_ok': ok and not d['args'],
            'extra': sorted(set(kw) - {'name', 'atoms', 'size', 'thermo'})}


def _split(v):
    return v.split() if isinstance(v, str) else []


def _cti_phase(d):
    kw = d['kw']
    kind = {'ideal_gas': 'gas', 'stoichiometric_solid': 'solid', 'interacting_interface': 'iface'}[d['call']]

    def rng(key):
        v = kw.get(key)
        if v is None:
            return 'absent', []
        if isinstance(v, list) and all(isinstance(x, str) for x in v):
            return 'range', [codes(x) for x in v]
        return 'other', []
    rf, re_ = rng('reactions')
    itf, ite = rng('interactions')
    return {'name': str(kw.get('name')), 'kind': kind, 'species': _split(kw.get('species')),
            'elements': _split(kw.get('elements')), 'parents': _split(kw.get('phases')),
            'sp_lines': (kw.get('species').count('\n') + 1) if isinstance(kw.get('species'), str) else 0,
            'sd': _num_or_text(kw.get('site_density')), 'density': _num_or_text(kw.get('density')),
            'rx_form': rf, 'rx_kw': '', 'rx_entries': re_,
            'int_form': itf, 'int_kw': '', 'int_entries': ite,
            'beps_form': 'absent' if kw.get('beps') is None else 'names', 'beps_kw': '',
            'beps_names': _split(kw.get('beps')), 'note': _split(kw.get('note')),
            'extra': sorted(set(kw) - {'name', 'elements', 'species', 'phases', 'site_density', 'density',
                                       'reactions', 'interactions', 'beps', 'note'})
            + (['positional'] if d['args'] else [])}


def _cti_reaction(d):
    args, kw = d['args'], d['kw']
    eq = _equation(args[0]) if args else None
    rate = args[1] if len(args) > 1 else None
    typ, vals = '?', [None, None, None]
    if isinstance(rate, dict) and rate.get('call') == 'stick' and len(rate['args']) == 3:
        typ, vals = 'stick', rate['args']
    elif isinstance(rate, list) and len(rate) == 3:
        typ, vals = 'arr', rate
    rid = kw.get('id')
    return {'l': eq[0] if eq else [], 'r': eq[1] if eq else [], 'eq_ok': eq is not None,
            'id': rid if isinstance(rid, str) else '', 'idc': codes(rid) if isinstance(rid, str) else [],
            'type': typ, 'A': _num_or_text(vals[0]), 'b': _num_or_text(vals[1]), 'Ea': _num_or_text(vals[2]),
            'stick_species': '', 'motz': 'absent',
            'extra': sorted(set(kw) - {'id'}) + (['positional'] if len(args) > 2 else [])}


def _cti_bep(d):
    kw = d['kw']
    rid = kw.get('id')

    def ent(key):
        v = kw.get(key)
        return [codes(x) for x in v] if isinstance(v, list) and all(isinstance(x, str) for x in v) else []
    return {'id': rid if isinstance(rid, str) else '', 'idc': codes(rid) if isinstance(rid, str) else [],
            'slope': _num_or_text(kw.get('slope')), 'intercept': _num_or_text(kw.get('intercept')),
            'direction': str(kw.get('direction')), 'cleavage': ent('cleavage_reactions'),
            'synthesis': ent('synthesis_reactions'),
            'extra': sorted(set(kw) - {'id', 'slope', 'intercept', 'direction', 'cleavage_reactions',
                                       'synthesis_reactions'}) + (['positional'] if d['args'] else [])}


def _cti_inter(d):
    kw = d['kw']
    rid = kw.get('id')
    th = _decs(kw.get('coverage_thresholds')) if isinstance(kw.get('coverage_thresholds'), list) else None
    st = kw.get('strengths')
    return {'pair': _split(d['args'][0]) if d['args'] and isinstance(d['args'][0], str) else [],
            'thresholds': th or [], 'th_ok': th is not None,
            'strengths': [_num_or_text(x) for x in st] if isinstance(st, list) else [],
            'id': rid if isinstance(rid, str) else '', 'idc': codes(rid) if isinstance(rid, str) else [],
            'extra': sorted(set(kw) - {'coverage_thresholds', 'strengths', 'id'})}


def project_cti(text):
    out = {'loaded': False, 'sections': [], 'msg': ''}
    try:
        tree = ast.parse(text)
    except SyntaxError as ex:
        out['msg'] = ('SyntaxError: %s' % ex)[:300]
        return out
    out['loaded'] = True
    dirs = []
    for stmt in tree.body:
        n = _node(stmt.value) if isinstance(stmt, ast.Expr) else {'bad': type(stmt).__name__}
        dirs.append(n if isinstance(n, dict) and 'call' in n else {'call': '?', 'args': [], 'kw': {}})
    out['sections'] = [d['call'] for d in dirs]
    un = next((d['kw'] for d in dirs if d['call'] == 'units'), {})
    out['units'] = {k: codes(str(un.get(k, ''))) for k in UNIT_KEYS}
    mz = [d['call'] for d in dirs if d['call'] in ('enable_motz_wise', 'disable_motz_wise')]
    out['motz'] = 'absent' if not mz else ('other' if len(mz) > 1 else
                                           'true' if mz[0] == 'enable_motz_wise' else 'false')
    out['phases'] = [_cti_phase(d) for d in dirs
                     if d['call'] in ('ideal_gas', 'stoichiometric_solid', 'interacting_interface')]
    out['species'] = [_cti_species(d) for d in dirs if d['call'] == 'species']
    out['reactions'] = [_cti_reaction(d) for d in dirs if d['call'] == 'surface_reaction']
    out['beps'] = [_cti_bep(d) for d in dirs if d['call'] == 'bep']
    out['interactions'] = [_cti_inter(d) for d in dirs if d['call'] == 'lateral_interaction']
    return out


# --------------------------------------------------------------------------
# one case
# --------------------------------------------------------------------------
def _events(fmt, M, objs, proj, raised, f):
    u = M['units']
    used_beps = _first_use_order(M)
    exp = {'phases': [] if M['omit'] == 'phases' else [p['name'] for p in M['phases']],
           'species': [] if M['omit'] == 'species' else [s['name'] for s in M['species']],
           'may': ['reactions', 'interactions'] if M['empty_lists'] else [],
           'nrx': len(M['reactions']), 'nbeps': len(used_beps), 'ninter': len(M['interactions']),
           'has_rx': bool(M['reactions']), 'has_inter': bool(M['interactions']),
           'units': {k: codes(u[k]) for k in UNIT_KEYS}, 'motz': bool(M['motz'])}
    ev = [{'ev': 'begin', 'fmt': fmt, 'raised': raised, 'loaded': bool(proj.get('loaded')),
           'sections': proj.get('sections', []), 'units': proj.get('units', {k: [] for k in UNIT_KEYS}),
           'motz': proj.get('motz', 'absent'), 'exp': exp}]
    if raised or not proj.get('loaded'):
        ev.append({'ev': 'end'})
        return ev
    for k, o in enumerate(proj['reactions']):
        e = (_exp_reaction(M, k, M['reactions'][k], objs['reactions'][k], f, objs['units'])
             if k < len(M['reactions']) else NOTFOUND)
        ev.append({'ev': 'reaction', 'k': k + 1, 'obs': o, 'exp': e})
    for k, o in enumerate(proj['interactions']):
        e = _exp_inter(M, M['interactions'][k], f) if k < len(M['interactions']) else NOTFOUND
        ev.append({'ev': 'interaction', 'k': k + 1, 'obs': o, 'exp': e})
    # every BEP entry is paired with ONE BEP object of the model: by its user name, otherwise (unnamed
    # objects) by its slope among the objects not yet taken; `ek` = position of that object (first use)
    taken = set()
    for k, o in enumerate(proj['beps']):
        cand = [j for j in range(len(used_beps)) if j not in taken]
        pick = next((j for j in cand if M['beps'][used_beps[j]]['name'] and M['beps'][used_beps[j]]['name'] == o['id']), None)
        if pick is None:
            unnamed = [j for j in cand if not M['beps'][used_beps[j]]['name']]
            pick = next((j for j in unnamed if o['slope']['k'] == 'num'
                         and o['slope']['num'] == to_dec(M['beps'][used_beps[j]]['slope'])),
                        unnamed[0] if unnamed else None)
        if pick is None:
            ev.append({'ev': 'bep', 'k': k + 1, 'ek': 0, 'obs': o, 'exp': NOTFOUND})
        else:
            taken.add(pick)
            ev.append({'ev': 'bep', 'k': k + 1, 'ek': pick + 1, 'obs': o, 'exp': _exp_bep(M, used_beps[pick], f)})
    sp_by = {s['name']: s for s in M['species']}
    for o in proj['species']:
        ev.append({'ev': 'species', 'obs': o,
                   'exp': _exp_species(sp_by[o['name']]) if o['name'] in sp_by else NOTFOUND})
    ph_by = {p['name']: p for p in M['phases']}
    for o in proj['phases']:
        ev.append({'ev': 'phase', 'obs': o,
                   'exp': _exp_phase(M, ph_by[o['name']], f) if o['name'] in ph_by else NOTFOUND})
    ev.append({'ev': 'end'})
    return ev


def _first_use_order(M):
    seen = []
    for rx in M['reactions']:
        if (rx['ts'] or {}).get('kind') == 'bep' and rx['ts']['index'] not in seen:
            seen.append(rx['ts']['index'])
    return seen


def _apply_edits(M, objs):
    """Edit the real phases between two writes and return the abstract model after the edits."""
    import copy
    M2 = copy.deepcopy(M)
    ph_by = {p.name: p for p in objs['phases']}
    for ed in M['edits']:
        ph, nm, how = ph_by[ed['phase']], ed['name'], ed['how']
        if how == 'remove':
            ph.remove_species(nm)
        elif how == 'pop':
            ph.pop_species(ph.species_names.index(nm))
        elif how == 'clear_extend':
            keep = [sp for sp in ph.copy_species() if sp.name != nm]
            ph.clear_species()
            ph.extend_species(keep)
        elif how == 'append':
            isgas = ed['phase'] == M['pn']['gas']
            extra = {'name': 'HE' if isgas else 'CS(%s)' % nm[2], 'family': 'nasa',
                     'phase': ed['phase'], 'elements': {'He' if isgas else 'Cs': 1},
                     'n_sites': None if isgas else 1}
            extra.update(_thermo(random.Random(7), 'nasa'))
            obj = _mk_species(extra, None)
            ph.append_species(obj)
            objs['species'].append(obj)
            M2['species'].append(extra)
            continue
        else:
            continue
        M2['species'] = [sp for sp in M2['species'] if sp['name'] != nm]
        objs['species'] = [sp for sp in objs['species'] if sp.name != nm]
    return M2


def _write(fmt, kw, to_file):
    """The text of one file: returned by the writer, or read back from the file it wrote."""
    from pmutt.io.omkm import write_cti, write_thermo_yaml
    fn = write_thermo_yaml if fmt == 'yaml' else write_cti
    if not to_file:
        return fn(**kw)
    import os
    import shutil
    import tempfile
    d = tempfile.mkdtemp(prefix='c07d_')
    try:
        path = os.path.join(d, 'thermo.' + fmt)
        extra = {'write_xml': False} if fmt == 'cti' else {}
        ret = fn(filename=path, **extra, **kw)
        if ret is not None:
            raise core.MachineryError('%s(filename=...) returned something' % fn.__name__)
        with open(path) as fh:
            return fh.read()
    finally:
        shutil.rmtree(d, ignore_errors=True)


def _order(case, M):
    fmts = ['cti'] if M['classes'] == 'cantera' else list(case.get('formats', ['yaml', 'cti']))
    return fmts[::-1] if case.get('both') == 'cti_yaml' else fmts


def run_case(case):
    M = abstract_model(case)
    f = _factors(M['units'])
    out = {'events': {}, 'mism': [], 'build_error': '', 'order': _order(case, M)}
    shared = case.get('both') in ('yaml_cti', 'cti_yaml')      # the SAME objects go through both writers
    objs = None
    edited = False
    for fmt in out['order']:
        try:
            if objs is None or not shared:
                objs = build(M)                            # writers assign ids to the objects
        except Exception as ex:                            # the library refused a valid model
            out['build_error'] = '%s: %s' % (type(ex).__name__, ex)
            out['events'][fmt] = [{'ev': 'begin', 'fmt': fmt, 'raised': 'build:' + type(ex).__name__,
                                   'loaded': False, 'sections': [], 'units': {k: [] for k in UNIT_KEYS},
                                   'motz': 'absent', 'msg': out['build_error'][:300],
                                   'exp': {'phases': [], 'species': [], 'may': [], 'nrx': 0, 'nbeps': 0,
                                           'ninter': 0, 'has_rx': False, 'has_inter': False,
                                           'units': {k: [] for k in UNIT_KEYS}, 'motz': False}},
                                  {'ev': 'end'}]
            continue
        empty = [] if M['empty_lists'] else None
        kw = dict(phases=objs['phases'], species=objs['species'],
                  reactions=objs['reactions'] or empty, lateral_interactions=objs['interactions'] or empty)
        if M['omit'] in ('species', 'phases'):
            kw[M['omit']] = None
        if M['T_pass']:
            kw['T'] = M['T']
        if M['motz_pass']:
            kw['use_motz_wise'] = M['motz']
        if objs['units'] is not None:
            kw['units'] = objs['units']
        if M['P'] != 1.0:
            kw['P'] = M['P']
        if M['ads_act_method'] != 'get_H_act':
            kw['ads_act_method'] = M['ads_act_method']
        raised, text = '', None
        try:
            text = _write(fmt, kw, case.get('to_file'))
        except core.MachineryError:
            raise
        except Exception as ex:
            raised = type(ex).__name__
            out['msg_' + fmt] = '%s: %s' % (type(ex).__name__, str(ex)[:300])
        proj = {} if text is None else (project_yaml(text) if fmt == 'yaml' else project_cti(text))
        out['events'][fmt] = _events(fmt, M, objs, proj, raised, f)
        if proj.get('msg'):
            out['msg_' + fmt] = proj['msg']
        if raised or proj.get('msg'):
            out['events'][fmt][0]['msg'] = out.get('msg_' + fmt, '')
        if M['edits'] and text is not None and not edited:
            # write - edit - write: the second document is judged like the first
            raised2, text2 = '', None
            M2 = M
            try:
                M2 = _apply_edits(M, objs)
                kw.update(phases=objs['phases'], species=objs['species'])
                if M['omit'] in ('species', 'phases'):
                    kw[M['omit']] = None
                text2 = _write(fmt, kw, case.get('to_file'))
            except core.MachineryError:
                raise
            except Exception as ex:
                raised2 = type(ex).__name__
                out['msg2_' + fmt] = '%s: %s' % (type(ex).__name__, str(ex)[:300])
            proj2 = {} if text2 is None else (project_yaml(text2) if fmt == 'yaml' else project_cti(text2))
            ev2 = _events(fmt, M2, objs, proj2, raised2, f)
            ev2[0]['second'] = True
            if raised2 or proj2.get('msg'):
                ev2[0]['msg'] = out.get('msg2_' + fmt, proj2.get('msg', ''))
            out['events'][fmt] = out['events'][fmt] + ev2
            if shared:
                M, edited = M2, True                        # the other writer sees the edited objects
    return out


def execute(case):
    out = run_case(case)
    events = []
    for fmt in out['order']:
        events.extend(out['events'][fmt])
    return case, events, out['mism']


def _fmt_at(events, idx):
    for k in range(idx, -1, -1):
        if events[k]['ev'] == 'begin':
            return events[k]
    return {}


def facts(case):
    """Small facts about a model, used (selectively) as tags of violations."""
    M = abstract_model(case)
    used = {rx['ts']['index'] for rx in M['reactions'] if (rx['ts'] or {}).get('kind') == 'bep'}
    return {'via': M['via'], 'units_form': M['units_form'],
            'has_nasa9': any(s['family'] == 'nasa9' for s in M['species']),
            'shomate_with_sites': any(s['family'] == 'shomate' and s['n_sites'] is not None for s in M['species']),
            'ads_gas_not_first': any(rx['ads'] and rx['lhs'][0][1].endswith(')') for rx in M['reactions']),
            'has_interactions': bool(M['interactions']),
            'unnamed_bep_used': any(M['beps'][k]['name'] is None for k in used),
            'n_unnamed_beps_used': sum(1 for k in used if M['beps'][k]['name'] is None),
            'n_beps_used': len(used),
            'energy_per_quantity': '%s/%s' % (M['units']['energy'], M['units']['quantity']),
            'P_is_default': M['P'] == 1.0, 'ads_act_method': M['ads_act_method'],
            'ids': case.get('ids', 'mixed')}


def tags(case):
    return {'part': 'doc'}


# which facts matter for which clause (keeps the tag sets, and so the finding matchers, small)
RELEVANT = {('WellFormed', 'yaml'): ('shomate_with_sites',), ('WellFormed', 'cti'): ('has_nasa9',),
            ('UniqueIds', 'yaml'): ('ids',), ('UniqueIds', 'cti'): ('ids',),
            ('PhaseLists', 'yaml'): ('via',), ('PhaseLists', 'cti'): ('via',),
            ('IdAssigned', 'cti'): ('unnamed_bep_used',), ('IdAssigned', 'yaml'): ('unnamed_bep_used',),
            ('EachBepOnce', 'yaml'): ('n_unnamed_beps_used',), ('EachBepOnce', 'cti'): ('n_unnamed_beps_used',),
            ('DocumentsAgreeOnBeps', 'cti'): ('n_unnamed_beps_used',)}


def event_tags(case, events, idxs, clause):
    ev = events[idxs[0]]
    b = _fmt_at(events, idxs[0])
    fmt = b.get('fmt', '')
    t = {'fmt': fmt, 'entry': ev['ev']}
    if b.get('second'):
        t['after_edit'] = True
    fx = facts(case)
    for k in RELEVANT.get((clause, fmt), ()):
        t[k] = fx[k]
    if b.get('raised'):
        t['exc'] = b['raised']
        if b['raised'] == 'ValueError':
            t['energy_per_quantity'] = fx['energy_per_quantity']
            t['has_interactions'] = fx['has_interactions']
        elif b['raised'] == 'AttributeError':
            t['ads_gas_not_first'] = fx['ads_gas_not_first']
        elif b['raised'] == 'TypeError':
            t['unnamed_bep_used'] = fx['unnamed_bep_used']
    if clause in ('IdAssigned', 'UserIdKept', 'UniqueIds', 'BepMembers', 'RangeDenotesMembers'):
        t['ids'] = fx['ids']
    if ev['ev'] == 'species' and ev['exp'].get('found'):
        t['family'] = ev['exp']['model']
    if ev['ev'] == 'interaction' and clause == 'NumberMatches':
        t['energy_per_quantity'] = fx['energy_per_quantity']
    if ev['ev'] == 'reaction' and ev['exp'].get('found'):
        M = abstract_model(case)
        rx = M['reactions'][ev['k'] - 1]
        t['rx_kind'] = rx['kind']
        if clause == 'NumberMatches':
            t['P_is_default'] = fx['P_is_default']
            t['ads_act_method'] = fx['ads_act_method']
            t['Ea_given'] = rx['Ea'] is not None
    return t


def signature(case):
    return json.dumps(case, sort_keys=True)


def nontrivial(case):
    M = abstract_model(case)
    return bool(M['reactions'] or M['interactions'])


def sample(case):
    M = abstract_model(case)
    return {'part': 'doc', 'case': case, 'n_species': len(M['species']), 'n_reactions': len(M['reactions']),
            'n_interactions': len(M['interactions']), 'via': M['via'], 'units': M['units']}


def models(ctx):
    def good():
        ctx.model('OmkmIds', 'MC_OmkmIds', workers=1)

    def counter():
        bad = ctx.model('OmkmIds', 'MC_OmkmIds_counter', workers=1, expect_ok=False)
        if bad.ok or bad.violated is None:
            raise core.MachineryError('the counter id allocation should be rejected by OmkmIds.tla')
        ctx.notes.append('OmkmIds.tla rejects the r_%%04d counter allocation: %s violated' % bad.violated)
    def beps():
        ctx.model('OmkmBeps', 'MC_OmkmBeps', workers=2)

    def beps_byname():
        bad = ctx.model('OmkmBeps', 'MC_OmkmBeps_byname', workers=1, expect_ok=False)
        if bad.ok or bad.violated is None:
            raise core.MachineryError('BEP collection by name should be rejected by OmkmBeps.tla')
        ctx.notes.append('OmkmBeps.tla rejects collecting BEPs by their name at collection time: %s violated'
                         % bad.violated)
    return [good, counter, beps, beps_byname]


def generate(ctx, rnd):
    """Recipes.  Every knob is scheduled by the model number so that EVERY quick run contains every
    class of input named by the property's quantifier and the writers' docstrings (counted by
    `coverage_counters`; a class that did not occur is a machinery failure)."""
    cases = []
    n = ctx.pick(90, 900)
    forms = ['obj', 'cobj', 'dict', 'pdict', 'absent']
    for k in range(n):
        c = {'part': 'doc', 'cid': 'd%d' % k, 'seed': rnd.randrange(1 << 30),
             'size': 'big' if k % 5 == 0 else 'small', 'uk': k + ctx.seed, 'units_form': forms[k % 5]}
        if k % 5 in (1, 2):
            c['families'] = 'nasa'
        if k % 3 != 0:
            c['gas_first'] = True
        if k % 13 == 6:
            c['n_iface'] = 0
        if k % 13 == 9:
            c['n_iface'] = 3
        if k % 26 == 19:
            c.update(tiny=True, n_iface=0, bulk=False)
        if (not ctx.quick and k % 10 == 9) or (ctx.quick and k == 44):
            c.update(size='huge', n_reactions=40, n_interactions=10, n_iface=2)
        if k % 7 == 3:
            c['ids'] = 'collide'
        if k % 7 == 5:
            c['ids'] = 'int'
        if k % 6 == 1:
            c['P'] = rnd.choice([0.5, 2.0, 10.0])
        if k % 9 == 4:
            c['ads_act_method'] = 'get_G_act'
        if k % 11 == 5:
            c['bep_names'] = 'none'
        if k % 3 == 2:
            c['rewrite'] = True
        if k % 3 == 1:
            c['names'] = 'rich'
            c['size'] = 'big' if c['size'] != 'huge' else 'huge'
        if k % 4 == 1:
            c['beps'] = ['unnamed', 'mixed', 'auto_ns', 'named', 'unnamed'][(k // 4) % 5]
            c['size'] = 'big' if c['size'] != 'huge' else 'huge'
        if k % 8 == 2:
            c['T'] = 'default'
        if k % 8 == 5:
            c['T'] = 'int'
        if k % 7 == 1:
            c['motz'] = 'default'
        if k % 4 == 2:
            c['phase_names'] = 'odd'
        if k % 5 == 3:
            c['notes'] = True
        if k % 4 == 3:
            c['parents'] = 'objects'
        if k % 17 == 4:
            c.update(bulk=True, empty_bulk=True)
        if k % 5 == 4:
            c['ctor'] = 'from_string'
        if k % 6 == 4:
            c['move'] = MOVES[(k // 6 + ctx.seed) % 8]
        if k % 6 == 2:
            c['both'] = 'yaml_cti'
        if k % 6 == 5:
            c['both'] = 'cti_yaml'
        if k % 10 == 3:
            c['to_file'] = True
        if k % 9 == 7:
            c['classes'] = 'cantera'
        if k % 15 == 8:
            c['empty_lists'] = True
        if k % 19 == 6:
            c['omit'] = 'species'
        if k % 19 == 12:
            c['omit'] = 'phases'
        cases.append(c)
    return cases


def coverage_counters(cases):
    """How often each class of input occurred in this run; `missing` lists the classes that did not."""
    cnt = {}

    def hit(key, cond=True):
        cnt[key] = cnt.get(key, 0) + (1 if cond else 0)
    seen_units = {k: set() for k in UNIT_VALUES}
    for c in cases:
        M = abstract_model(c)
        used = {rx['ts']['index'] for rx in M['reactions'] if (rx['ts'] or {}).get('kind') == 'bep'}
        unn = sum(1 for k in used if M['beps'][k]['name'] is None)
        if M['units_form'] != 'absent':
            for k in M['units_given']:
                seen_units[k].add(M['units'][k])
        for form in ('obj', 'cobj', 'dict', 'pdict', 'absent'):
            hit('units_form_' + form, M['units_form'] == form)
        hit('models_with_2plus_unnamed_beps', unn >= 2)
        hit('models_with_2plus_beps', len(used) >= 2)
        hit('T_default', not M['T_pass'])
        hit('T_int', isinstance(M['T'], int))
        hit('P_not_default', M['P'] != 1.0)
        hit('motz_default', not M['motz_pass'])
        hit('motz_on', M['motz_pass'] and M['motz'])
        hit('motz_off', M['motz_pass'] and not M['motz'])
        hit('ads_act_method_G', M['ads_act_method'] == 'get_G_act')
        hit('phase_names_with_hyphen_underscore_parenthesis', M['pn']['gas'] != 'gas')
        hit('phase_notes', any(p.get('note') for p in M['phases']))
        hit('parents_as_objects', M['parents_as'] == 'objects' and M['via'] != 'organize'
            and any(p['kind'] == 'iface' for p in M['phases']))
        for n in (1, 2, 3, 4):
            hit('phases_%d' % n, len(M['phases']) == n)
        hit('interfaces_3', sum(1 for p in M['phases'] if p['kind'] == 'iface') == 3)
        hit('phase_without_species', any(not [s for s in M['species'] if s['phase'] == p['name']] for p in M['phases']))
        hit('phase_with_one_species', any(len([s for s in M['species'] if s['phase'] == p['name']]) == 1 for p in M['phases']))
        hit('cantera_phase_classes', M['classes'] == 'cantera')
        for via in ('organize', 'direct', 'incremental'):
            hit('via_' + via, M['via'] == via)
        hit('same_objects_yaml_then_cti', c.get('both') == 'yaml_cti' and M['classes'] != 'cantera')
        hit('same_objects_cti_then_yaml', c.get('both') == 'cti_yaml' and M['classes'] != 'cantera')
        hit('written_to_file', bool(c.get('to_file')))
        hit('write_edit_write', bool(M['edits']))
        hit('reactions_from_string', M['ctor'] == 'from_string' and bool(M['reactions']))
        hit('integer_ids', any((rx['id'] or '').isdigit() for rx in M['reactions']))
        hit('user_ids', any(rx['id'] for rx in M['reactions']))
        hit('auto_and_user_ids_mixed', any(rx['id'] for rx in M['reactions']) and any(not rx['id'] for rx in M['reactions']))
        hit('empty_lists_passed', M['empty_lists'])
        hit('species_omitted', M['omit'] == 'species')
        hit('phases_omitted', M['omit'] == 'phases')
        hit('species_exactly_2', len(M['species']) == 2)
        hit('species_30_to_40', 30 <= len(M['species']) <= 40)
        hit('reactions_0', not M['reactions'])
        hit('reactions_30_to_40', 30 <= len(M['reactions']) <= 40)
        hit('interactions_0', not M['interactions'])
        hit('interactions_10', len(M['interactions']) == 10)
        hit('interaction_with_4plus_intervals', any(len(i['intervals']) >= 4 for i in M['interactions']))
        hit('interaction_with_zero_slope', any(0.0 in i['slopes'] for i in M['interactions']))
        hit('interaction_user_id', any(i['name'] for i in M['interactions']))
        for fam in ('nasa', 'nasa9', 'shomate'):
            hit('family_' + fam, any(s['family'] == fam for s in M['species']))
        for kind in ('ads', 'diss', 'assoc', 'er'):
            hit('reaction_' + kind, any(rx['kind'] == kind for rx in M['reactions']))
        hit('reaction_with_TS_species', any((rx['ts'] or {}).get('kind') == 'species' for rx in M['reactions']))
        hit('reaction_with_BEP', bool(used))
        hit('reaction_A_given', any(rx['A'] is not None for rx in M['reactions']))
        hit('reaction_Ea_given', any(rx['Ea'] is not None for rx in M['reactions']))
        hit('reaction_Ea_zero', any(rx['Ea'] == 0.0 for rx in M['reactions']))
        hit('rich_species_names', c.get('names') == 'rich')
        for mv in MOVES:
            hit('species_moved_' + mv, M['move'] == mv and len(M['phases']) >= 2)
    for k, vals in UNIT_VALUES.items():
        cnt['unit_values_%s_seen' % k] = len(seen_units[k])
        cnt['unit_values_%s_all' % k] = int(seen_units[k] >= set(vals))
    missing = sorted(k for k, v in cnt.items() if not v)
    return cnt, missing
