SHARDS = 5
def models(ctx): return []
def generate(ctx, rnd): return []
