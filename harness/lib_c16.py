"""Helpers of the C16 driver (equilibrium compositions).

Nothing here judges the library: these functions build inputs (NASA-7 species,
networks, feeds), observe one call of the real code (recording wrapper around
scipy's minimize, warnings, exceptions) and PROPOSE certificates (reaction
vectors, rank minors, degeneracy combinations, displaced compositions, ln / 1/x
sensors) that spec/Trace_Equilibrium.tla verifies before it uses them.
"""
import zlib
import itertools
import math
import random
import re
import warnings
from fractions import Fraction

from harness.core import to_dec, to_dec_exact, MachineryError

BAR_PER_ATM = 1.01325
EPS_NEAR = 1e-2          # must equal Eps of Trace_Equilibrium.tla
THERMDAT = 'pmutt/tests/equilibrium/thermdat_equilibrium_unittest.txt'

# warnings that are not statements about the solver's outcome (floating point
# noise inside the objective, scipy's bound-clipping notice the module itself filters)
_NOT_A_SIGNAL = re.compile(r'(invalid value|divide by zero|overflow|underflow) encountered'
                           r'|Values in x were outside bounds')


# --------------------------------------------------------------------------
# exact integer linear algebra (proposals only; TLC verifies CertOK)
# --------------------------------------------------------------------------
def null_basis(rows, order=None):
    """rows: species x elements integer matrix.  Returns (B, piv, minor_rows, minor_cols):
    integer reaction vectors in pivot form (vector j owns coordinate piv[j]), and the
    rows/cols (1-based) of a non-singular minor of size rank.  `order` (species indices,
    most abundant first) decides which species become pivots of the elimination, so the
    free species (those that own a basis vector) are the least abundant ones."""
    n = len(rows)
    m = len(rows[0]) if n else 0
    order = list(order) if order is not None else list(range(n))
    A = [[Fraction(rows[order[c]][j]) for c in range(n)] for j in range(m)]   # E^T, columns permuted
    eq_of_row = list(range(m))
    piv_cols, piv_eqs = [], []
    r = 0
    for c in range(n):
        p = next((i for i in range(r, m) if A[i][c] != 0), None)
        if p is None:
            continue
        A[r], A[p] = A[p], A[r]
        eq_of_row[r], eq_of_row[p] = eq_of_row[p], eq_of_row[r]
        pv = A[r][c]
        A[r] = [x / pv for x in A[r]]
        for i in range(m):
            if i != r and A[i][c] != 0:
                f = A[i][c]
                A[i] = [x - f * y for x, y in zip(A[i], A[r])]
        piv_cols.append(c)
        r += 1
        if r == m:
            break
    free = [c for c in range(n) if c not in piv_cols]
    B, piv = [], []
    for f in free:
        v = [Fraction(0)] * n
        v[f] = Fraction(1)
        for i, c in enumerate(piv_cols):
            v[c] = -A[i][f]
        den = 1
        for x in v:
            den = den * x.denominator // math.gcd(den, x.denominator)
        vec = [0] * n
        for c in range(n):
            vec[order[c]] = int(v[c] * den)
        B.append(vec)
        piv.append(order[f] + 1)
    # a non-singular minor: pivot species x a set of independent element columns
    mrows = [order[c] for c in piv_cols]
    mcols = _independent_columns([rows[i] for i in mrows], len(mrows))
    return B, piv, [i + 1 for i in mrows], [j + 1 for j in mcols]


def _independent_columns(sub, r):
    m = len(sub[0]) if sub else 0
    for cols in itertools.combinations(range(m), r):
        if _det([[Fraction(row[j]) for j in cols] for row in sub]) != 0:
            return list(cols)
    if r == 0:
        return []
    raise MachineryError('no non-singular minor found')


def _det(a):
    a = [list(r) for r in a]
    n = len(a)
    d = Fraction(1)
    for c in range(n):
        p = next((i for i in range(c, n) if a[i][c] != 0), None)
        if p is None:
            return Fraction(0)
        if p != c:
            a[c], a[p] = a[p], a[c]
            d = -d
        d *= a[c][c]
        for i in range(c + 1, n):
            f = a[i][c] / a[c][c]
            a[i] = [x - f * y for x, y in zip(a[i], a[c])]
    return d


def degeneracy_certificates(rows, fed, R=4):
    """Integer combinations c of the element balances: (dep, fz).  dep: every species
    weight E_i.c is zero (dependent balances).  fz: weights >= 0, zero on every fed
    species, positive on as many species as possible (those species are forced to zero).
    c is searched in the integer null space of the fed rows (coefficients -R..R on its
    basis).  TLC verifies whatever is proposed (EqLin!DependentElements / ForcedZero)."""
    n = len(rows)
    m = len(rows[0])
    cols = [[rows[i][j] for i in range(n)] for j in range(m)]            # elements x species
    depB = null_basis(cols)[0]
    dep = depB[0] if depB else []
    fed_idx = [i for i in range(n) if fed[i]]
    if fed_idx:
        basis = null_basis([[rows[i][j] for i in fed_idx] for j in range(m)])[0]
    else:
        basis = [[1 if a == b else 0 for b in range(m)] for a in range(m)]
    fz, best = [], 0
    for co in itertools.product(range(-R, R + 1), repeat=len(basis)):
        if not any(co):
            continue
        c = [sum(co[b] * basis[b][j] for b in range(len(basis))) for j in range(m)]
        w = [sum(rows[i][j] * c[j] for j in range(m)) for i in range(n)]
        if min(w) >= 0:
            cnt = sum(1 for x in w if x > 0)
            if cnt > best or (cnt == best and cnt and sum(map(abs, c)) < sum(map(abs, fz))):
                best, fz = cnt, c
    return dep, fz


# --------------------------------------------------------------------------
# species, networks
# --------------------------------------------------------------------------
def nasa_coeffs(rnd, g_target, T):
    """NASA-7 coefficients of one polynomial whose G/RT at T is g_target."""
    a1 = round(rnd.uniform(2.5, 12.0), 3)
    a2 = round(rnd.uniform(-2e-3, 6e-3), 6)
    a3 = round(rnd.uniform(-2e-6, 2e-6), 9)
    a7 = round(rnd.uniform(-10.0, 30.0), 3)
    rest = a1 * (1.0 - math.log(T)) - a2 * T / 2.0 - a3 * T * T / 6.0 - a7
    a6 = float('%.9g' % (T * (g_target - rest)))
    return [a1, a2, a3, 0.0, 0.0, a6, a7]


THERMO_CLASSES = ('nasa', 'nasa9', 'shomate', 'statmech')
# molecules ase can build (StatMech needs a geometry): name -> (formula, symmetry number, spin, #vib modes)
ASE_MOLECULES = {'H2O': ({'H': 2, 'O': 1}, 2, 0.0, 3), 'H2': ({'H': 2}, 2, 0.0, 1),
                 'O2': ({'O': 2}, 2, 1.0, 1), 'CO': ({'C': 1, 'O': 1}, 1, 0.0, 1),
                 'CO2': ({'C': 1, 'O': 2}, 2, 0.0, 4), 'CH4': ({'C': 1, 'H': 4}, 12, 0.0, 9),
                 'NH3': ({'N': 1, 'H': 3}, 3, 0.0, 6), 'N2': ({'N': 2}, 2, 0.0, 1),
                 'C2H4': ({'C': 2, 'H': 4}, 4, 0.0, 12), 'H2O2': ({'H': 2, 'O': 2}, 2, 0.0, 6)}
R_J = 8.31446261815324
KB_EV = 8.617333262e-5


def _build_one(s):
    """One species object from its (JSON-able) description."""
    els = {k: int(v) for k, v in s['formula'].items() if v}
    cls = s.get('cls', 'nasa')
    if cls == 'nasa':
        from pmutt.empirical.nasa import Nasa
        kw = {}
        if s.get('phase') is not None:
            kw['phase'] = s['phase']
        return Nasa(name=s['name'], T_low=s.get('T_low', 200.0), T_mid=s.get('T_mid', 1000.0),
                    T_high=s.get('T_high', 3000.0), a_low=list(s.get('a_low', s.get('a'))),
                    a_high=list(s.get('a_high', s.get('a'))), elements=els, **kw)
    if cls == 'nasa9':
        from pmutt.empirical.nasa import Nasa9, SingleNasa9
        import numpy as np
        return Nasa9(name=s['name'], elements=els,
                     nasas=[SingleNasa9(T_low=200.0, T_high=1000.0, a=np.array(s['a1'], dtype=float)),
                            SingleNasa9(T_low=1000.0, T_high=3000.0, a=np.array(s['a2'], dtype=float))])
    if cls == 'shomate':
        from pmutt.empirical.shomate import Shomate
        import numpy as np
        return Shomate(name=s['name'], T_low=200.0, T_high=3000.0, a=np.array(s['a'], dtype=float),
                       elements=els)
    if cls == 'statmech':
        from ase.build import molecule
        from pmutt.statmech import StatMech, presets
        return StatMech(name=s['name'], elements=els, potentialenergy=s['E'], spin=s['spin'],
                        symmetrynumber=s['sym'], atoms=molecule(s['mol']),
                        vib_wavenumbers=list(s['vib']), **presets['idealgas'])
    raise MachineryError('unknown thermo class %r' % (cls,))


def make_species(spec):
    return [_build_one(s) for s in spec]


def species_spec(rnd, name, formula, g_target, T, cls='nasa', mol=None, phase='any'):
    """Description of a species of the given thermo class whose G/RT at T is g_target
    (the energy-like coefficient of the class is tuned on the real object)."""
    s = {'name': name, 'formula': dict(formula), 'cls': cls}
    if cls == 'nasa':
        active = nasa_coeffs(rnd, g_target, T)
        variant = rnd.choice(['same', 'distinct', 'distinct'])
        other = list(active) if variant == 'same' else nasa_coeffs(rnd, g_target + rnd.uniform(-3.0, 3.0), T)
        # the fit range need not contain the temperature of the calculation (seed C16-14): NASA-7 species are
        # evaluated where they are asked, e.g. the bundled thermdat ends at 1500 K
        # (derived from the name, not drawn: the random stream - and with it every other case - stays what it was)
        s['T_low'] = rnd.choice([200.0, 300.0])
        s['T_high'] = rnd.choice([2500.0, 3000.0])
        h = zlib.crc32(name.encode())
        if h % 4 == 0:
            s['T_high'] = 1500.0 if h % 8 == 0 else 1100.0
        elif h % 4 == 1 and h % 3 == 0:
            s['T_low'] = 700.0
        s['T_mid'] = 1000.0
        s['a_low'], s['a_high'] = (active, other) if T < 1000.0 else (other, active)
        s['phase'] = rnd.choice([None, None, 'G', 'gas']) if phase == 'any' else phase
        key, idx, per = ('a_low' if T < 1000.0 else 'a_high'), 5, T
    elif cls == 'nasa9':
        def one():
            return [0.0, 0.0, round(rnd.uniform(2.5, 10.0), 3), round(rnd.uniform(-1e-3, 4e-3), 6),
                    round(rnd.uniform(-1e-6, 1e-6), 9), 0.0, 0.0, -1.0e4, round(rnd.uniform(-5.0, 25.0), 3)]
        s['a1'], s['a2'] = one(), one()
        key, idx, per = 'a1', 7, T                 # (both intervals are shifted alike below)
    elif cls == 'shomate':
        s['a'] = [round(rnd.uniform(20.0, 60.0), 3), round(rnd.uniform(0.0, 20.0), 3),
                  round(rnd.uniform(-5.0, 8.0), 3), round(rnd.uniform(-3.0, 1.0), 3),
                  round(rnd.uniform(-0.5, 0.5), 3), -100.0, round(rnd.uniform(180.0, 260.0), 3), -100.0]
        key, idx, per = 'a', 5, R_J * T / 1000.0
    elif cls == 'statmech':
        f, sym, spin, nv = ASE_MOLECULES[mol]
        s.update({'mol': mol, 'formula': dict(f), 'sym': sym, 'spin': spin, 'E': -10.0,
                  'vib': [round(rnd.uniform(400.0, 3800.0), 1) for _ in range(nv)]})
        key, idx, per = 'E', None, KB_EV * T
    else:
        raise MachineryError('unknown thermo class %r' % (cls,))
    for _ in range(3):                           # tune on the real object (linear in the coefficient)
        g0 = float(_build_one(s).get_GoRT(T=T))
        d = (g_target - g0) * per
        if idx is None:
            s[key] = float('%.12g' % (s[key] + d))
        else:
            for kk in ((key, 'a2') if cls == 'nasa9' else (key,)):
                s[kk] = list(s[kk])
                s[kk][idx] = float('%.12g' % (s[kk][idx] + d))
    return s


ELEMENTS = ('C', 'H', 'O', 'N', 'S', 'Cl', 'Ar', 'He', 'Si')
NAME_SUFFIXES = ['(g)', '-a', '_2', '*', "'", '(S)', ' rad', '+', '(2-)', '.x']
T_VALUES = [300.0, 300.00000000000006, 300.5, 500.0, 999.9999999999999, 1000.0, 1000.0000000000001,
            1500.0, 2499.9999999999995, 2500.0]
P_VALUES = [0.01, 0.010000000000000002, 0.1, 1.0, 1.0000000000000002, 10.0, 99.99999999999999, 100.0]
SPANS = [0.0, 1.0, 5.0, 20.0, 59.99, 60.0]
FEED_KINDS = ['mixed', 'onehot', 'all', 'tiny', 'int', 'trace', 'mixed']
SCALES = [1.0, 1e-3, 1.0, 1e3, 1.0, 1e-6, 1.0, 1e6]
NUM_TYPES = ['float', 'int', 'np.float64', 'np.int64', 'float']


def typed(x, t):
    """The number x as the Python / numpy type named t (ints only for integral values)."""
    import numpy as np
    if t in ('int', 'np.int64') and float(x) != int(x):
        t = 'float' if t == 'int' else 'np.float64'
    return {'float': float, 'int': int, 'np.float64': np.float64, 'np.int64': np.int64}[t](x)


def hill(f):
    return ''.join('%s%s' % (e, '' if f[e] == 1 else f[e]) for e in sorted(f) if f[e])


def _formulas(rnd, els, ns):
    forms = []
    top = 4 if len(els) > 1 else max(4, ns)
    for _ in range(2000):
        f = {e: rnd.choice([0, 0, 1, 1, 2, 3, 4] if len(els) > 1 else list(range(1, top + 1))) for e in els}
        if sum(f.values()) and f not in forms:
            forms.append(f)
        if len(forms) == ns:
            break
    for e in els:
        if not any(f[e] for f in forms):
            forms[rnd.randrange(len(forms))][e] = 1
    return forms


def _feed(rnd, forms, els, kind):
    n = len(forms)
    if kind == 'all':
        feed = [rnd.choice([0.5, 1.0, 1.5, 2.0]) for _ in forms]
    elif kind == 'int':
        feed = [float(rnd.choice([0, 1, 1, 2, 3])) for _ in forms]
    elif kind == 'onehot':
        feed = [0.0] * n
        full = [i for i in range(n) if all(forms[i][e] for e in els)]
        if full:
            feed[rnd.choice(full)] = rnd.choice([1.0, 2.0, 0.7])
    else:
        feed = [rnd.choice([0.0, 0.0, 1.0, 0.5, 2.0, round(rnd.uniform(0.05, 3.0), 2)]) for _ in forms]
    for e in els:                                      # the feed must contain every element
        if not any(feed[i] > 0 and forms[i][e] for i in range(n)):
            cand = [i for i in range(n) if forms[i][e]]
            feed[rnd.choice(cand)] += 1.0
    if kind == 'tiny':
        zero = [i for i in range(n) if feed[i] == 0.0] or list(range(n))
        feed[rnd.choice(zero)] = 1e-12
    return feed


def _trace_forms(rnd, forms, els, nc):
    """Rearrange the formulas so that the last element occurs only in the last nc species
    (the carriers of the trace element) and the other species hold every other element.
    Returns None when that cannot be done with distinct formulas."""
    tr = els[-1]
    forms = [dict(f) for f in forms]
    n = len(forms)
    nc = max(1, min(nc, n - 1))
    for i, f in enumerate(forms):
        if i < n - nc:
            f[tr] = 0
            if not sum(f.values()):
                f[els[0]] = 1 + i % 4
        elif not f[tr]:
            f[tr] = 1 + i % 3
    for e in els[:-1]:
        if not any(f[e] for f in forms[:n - nc]):
            forms[rnd.randrange(n - nc)][e] = 1 + rnd.randrange(3)
    for _ in range(50):                       # make the formulas distinct again
        dup = [(a, b) for a in range(n) for b in range(a) if forms[a] == forms[b]]
        if not dup:
            return forms
        a = dup[0][0]
        e = rnd.choice(els[:-1]) if a < n - nc else rnd.choice(els)
        forms[a][e] = forms[a][e] % 6 + 1
    return None


def _trace_feed(rnd, forms, els, k):
    """One element's feed total is ratio (1e-6 .. 1e-12) of the largest other element total,
    supplied through one or through several of its carrier species."""
    tr = els[-1]
    n = len(forms)
    carriers = [i for i in range(n) if forms[i][tr]]
    feed = [0.0 if forms[i][tr] else rnd.choice([0.0, 1.0, 0.5, 2.0, round(rnd.uniform(0.05, 3.0), 2)])
            for i in range(n)]
    for e in els[:-1]:
        if not any(feed[i] > 0 and forms[i][e] for i in range(n)):
            feed[rnd.choice([i for i in range(n) if forms[i][e] and not forms[i][tr]])] += 1.0
    big = max(sum(feed[i] * forms[i][e] for i in range(n)) for e in els[:-1])
    ratio = [1e-6, 1e-8, 1e-9, 1e-10, 1e-12][(k // 7) % 5]
    fedc = carriers if (k // 7) % 2 and len(carriers) > 1 else [rnd.choice(carriers)]
    for i in fedc:
        feed[i] = float('%.3g' % (ratio * big / len(fedc) / forms[i][tr]))
    return feed, {'element': tr, 'ratio': ratio, 'carriers_fed': len(fedc), 'carriers': len(carriers)}


def random_case(rnd, cid, wellcond=False, k=0):
    """Stratified by the running index k: species count, element count, name style, feed
    class, amount scale and number types cycle through their whole ranges."""
    nel = 1 + k % 4
    if not wellcond and FEED_KINDS[k % len(FEED_KINDS)] == 'trace':
        nel = 2 + k % 3                       # a trace ELEMENT needs another element beside it
    ns = 2 + k % 5 if wellcond else 2 + k % 11
    els = rnd.sample(ELEMENTS, nel)
    if k % 3 == 0 and not any(len(e) == 2 for e in els):
        els[rnd.randrange(nel)] = rnd.choice([e for e in ELEMENTS if len(e) == 2 and e not in els])
    forms = _formulas(rnd, els, ns)
    fkind = 'all' if wellcond and k % 3 else FEED_KINDS[k % len(FEED_KINDS)]
    if fkind == 'trace':
        tf = _trace_forms(rnd, forms, els, 1 + (k // 7) % 3) if nel >= 2 else None
        forms, fkind = (tf, 'trace') if tf else (forms, 'mixed')
    T = T_VALUES[(k // 2) % len(T_VALUES)] if k % 2 == 0 else round(rnd.uniform(300.0, 2500.0), 1)
    Ps = [P_VALUES[(k // 2) % len(P_VALUES)] if k % 3 else float('%.3g' % 10 ** rnd.uniform(-2, 2))]
    if k % 4 == 1:
        Ps.append(rnd.choice(P_VALUES))
    span = [0.0, 0.5, 1.0, 3.0][k % 4] if wellcond else SPANS[k % len(SPANS)]
    base = rnd.uniform(-100.0, 40.0)
    style = k % 3
    spec = []
    for i, f in enumerate(forms):
        # the two ends of the span are realised by the first two species
        g = base + (0.0 if i == 0 else span * (1.0 - 1e-9) if i == 1 else rnd.uniform(0.0, span) * (1.0 - 1e-9))
        name = 'S%d' % i if style == 0 else hill(f) if style == 1 else \
            hill(f) + NAME_SUFFIXES[(k + i) % len(NAME_SUFFIXES)]
        spec.append(species_spec(rnd, name, f, g, T, 'nasa', phase='G' if k % 4 == 2 else 'any'))
    trace = None
    if fkind == 'trace':
        feed, trace = _trace_feed(rnd, forms, els, k)
    else:
        feed = _feed(rnd, forms, els, fkind)
    scale = SCALES[k % len(SCALES)]
    feed = [x if x == 1e-12 else float('%.6g' % (x * scale)) for x in feed]
    points = [[T, P] for P in Ps]
    if k % 2 == 1:                                     # another temperature on the same object
        points.append([rnd.choice([x for x in (400.0, 800.0, 1200.0, 2000.0) if abs(x - T) > 50.0]),
                       rnd.choice(P_VALUES)])
    perm = list(range(len(forms)))
    rnd.shuffle(perm)
    return {'cid': cid, 'kind': 'wellcond' if wellcond else 'rand', 'elements': els,
            'species': spec, 'feed': feed, 'points': points, 'perm': perm,
            'feedkind': fkind, 'scale': scale, 'namestyle': style, 'trace': trace,
            'types': {'T': NUM_TYPES[k % 5], 'P': NUM_TYPES[(k // 5) % 5],
                      'feed': NUM_TYPES[(k // 3) % 5]}}


def inert_case(rnd, cid, k=0):
    """A reacting sub-network whose reactions change the number of moles, plus an inert
    diluent that is the only carrier of its element(s), fed in a non-zero amount."""
    a, b, x = rnd.sample(['C', 'H', 'O', 'N', 'S'], 3)
    dil = [('Ar', {'Ar': 1}), ('He', {'He': 1}), (x + '2', {x: 2}), ('Ar2' + x, {'Ar': 2, x: 1})][k % 4]
    forms = [{a: 1}, {a: 2}, {a: 1, b: 1}, {b: 2}, {a: 2, b: 2}][:3 + k % 3]
    if not any(f.get(b) for f in forms):
        forms.append({b: 2})
    els = sorted({e for f in forms for e in f} | set(dil[1]))
    forms = [{e: f.get(e, 0) for e in els} for f in forms] + [{e: dil[1].get(e, 0) for e in els}]
    T = rnd.choice([500.0, 1000.0, 1500.0])
    base = rnd.uniform(-40.0, 10.0)
    spec = [species_spec(rnd, hill(f) if i < len(forms) - 1 else dil[0], f,
                         base + rnd.uniform(0.0, 4.0), T, 'nasa') for i, f in enumerate(forms)]
    feed = [rnd.choice([0.0, 1.0, 0.5]) for _ in forms[:-1]] + [rnd.choice([0.5, 2.0, 10.0])]
    for e in els:
        if not any(feed[i] > 0 and forms[i][e] for i in range(len(forms))):
            feed[rnd.choice([i for i in range(len(forms)) if forms[i][e]])] += 1.0
    perm = list(range(len(forms)))
    rnd.shuffle(perm)
    return {'cid': cid, 'kind': 'inert', 'elements': els, 'species': spec, 'feed': feed,
            'points': [[T, rnd.choice([0.1, 1.0, 10.0])], [T, rnd.choice([0.01, 100.0])]], 'perm': perm}


def classes_case(rnd, cid, k=0):
    """Real molecules whose thermodynamics come from every class the docstring accepts
    (pmutt.empirical Nasa / Nasa9 / Shomate, pmutt.statmech StatMech), mixed in one network."""
    mols = rnd.sample(sorted(ASE_MOLECULES), 3 + k % 4)
    els = [e for e in ('C', 'H', 'O', 'N') if any(ASE_MOLECULES[m][0].get(e) for m in mols)]
    T = rnd.choice([400.0, 800.0, 1000.0, 1500.0, 2000.0])
    base = rnd.uniform(-40.0, 0.0)
    spec = []
    for i, m in enumerate(mols):
        f = {e: ASE_MOLECULES[m][0].get(e, 0) for e in els}
        cls = THERMO_CLASSES[(k + i) % 4]
        spec.append(species_spec(rnd, m, f, base + rnd.uniform(0.0, 10.0), T, cls, mol=m))
    forms = [s['formula'] for s in spec]
    feed = _feed(rnd, [{e: f.get(e, 0) for e in els} for f in forms], els, 'mixed')
    perm = list(range(len(mols)))
    rnd.shuffle(perm)
    return {'cid': cid, 'kind': 'classes', 'elements': els, 'species': spec, 'feed': feed,
            'points': [[T, rnd.choice([0.1, 1.0, 10.0])]], 'perm': perm}


ALPHABET_NAMES = ['H2', 'O2', 'H2O', 'CO', 'CO2', 'CH4', 'C2H2', 'C6H6', 'O3', 'H']


def tlc_case(rnd, cid, c, k=0):
    """A network generated by TLC (MC_EqCases.tla) dressed with NASA-7 species."""
    allels = ['C', 'H', 'O']
    els = [allels[j - 1] for j in c['els']]
    T = rnd.choice([500.0, 1000.0, 1500.0, 2000.0])
    P = rnd.choice([0.1, 1.0, 10.0])
    base = rnd.uniform(-40.0, 10.0)
    spec = []
    for i, row in enumerate(c['E']):
        g = base + rnd.uniform(0.0, 8.0)
        spec.append(species_spec(rnd, ALPHABET_NAMES[c['sp'][i] - 1],
                                 {e: int(v) for e, v in zip(els, row)}, g, T, 'nasa',
                                 phase='G' if k % 3 == 0 else 'any'))
    perm = list(range(len(spec)))
    rnd.shuffle(perm)
    return {'cid': cid, 'kind': 'tlc', 'elements': els, 'species': spec,
            'feed': [float(v) for v in c['feed']], 'points': [[T, P]], 'perm': perm,
            'expect': {'E': c['E'], 'tot': c['tot'], 'k': c['k'], 'dep': c['dep'], 'fz': c['fz']}}


# --------------------------------------------------------------------------
# observing one call
# --------------------------------------------------------------------------
class Recorder:
    """Rebinds pmutt.equilibrium._equilibrium.minimize inside this process: records the
    OptimizeResult of every solve; with force_fail the real solver is run with an
    iteration limit of 1 (a genuine failure of the genuine solver)."""

    def __init__(self):
        import pmutt.equilibrium._equilibrium as mod
        import scipy.optimize
        self.mod = mod
        self.real = scipy.optimize.minimize
        self.results = []
        self.force_fail = False
        mod.minimize = self._wrapped

    def _wrapped(self, *a, **k):
        if self.force_fail:
            k = dict(k)
            opts = dict(k.get('options') or {})
            opts['maxiter'] = 1
            k['options'] = opts
        res = self.real(*a, **k)
        self.results.append(res)
        return res

    def restore(self):
        self.mod.minimize = self.real


def observe_call(rec, fn, force_fail=False):
    """Run fn() (one library call).  Returns dict(out, status, how, sig, result, exc, msgs)."""
    rec.results.clear()
    rec.force_fail = force_fail
    result, exc = None, None
    with warnings.catch_warnings(record=True) as w:
        warnings.simplefilter('always')
        try:
            result = fn()
        except BaseException as ex:            # sys.exit() in the library is an exception too
            if isinstance(ex, KeyboardInterrupt):
                raise
            exc = ex
    rec.force_fail = False
    msgs = [str(x.message) for x in w if not _NOT_A_SIGNAL.search(str(x.message))]
    if rec.results:
        last = rec.results[-1]
        out = 'converged' if bool(last.success) else 'failed'
        status = int(last.status)
    else:
        out, status = 'nosolve', -1
    return {'out': out, 'status': status, 'how': 'raise' if exc is not None else 'return',
            'sig': bool(msgs), 'result': result,
            'exc': None if exc is None else '%s: %s' % (type(exc).__name__, exc),
            'msgs': msgs[:3]}


# --------------------------------------------------------------------------
# projections and proposals for one returned composition
# --------------------------------------------------------------------------
def _finite(xs):
    return all(isinstance(x, (int, float)) and math.isfinite(x) for x in xs)


def residual(nu, n, g, lnP):
    ntot = math.fsum(n)
    return math.fsum(v * (g[i] + math.log(n[i]) + lnP - math.log(ntot))
                     for i, v in enumerate(nu) if v)


def numeric_fields(E, fed, n, frac, g, T, P):
    """Everything Trace_Equilibrium.tla needs to judge a returned composition n (canonical
    species order).  All ln / reciprocal values are computed here from the logged numbers."""
    N = len(n)
    ntot = math.fsum(n)
    Pbar = P * BAR_PER_ATM
    lnP = math.log(Pbar)
    order = sorted(range(N), key=lambda i: -n[i])
    B, piv, mrows, mcols = null_basis(E, order)
    dep, fz = degeneracy_certificates(E, fed)
    ev = {'num': True,
          'n': [to_dec(x) for x in n], 'frac': [to_dec(x) for x in frac],
          'g': [to_dec(x) for x in g],
          'Pbar': to_dec(Pbar), 'lnP': to_dec(lnP),
          'ntot': to_dec(ntot), 'invtot': to_dec(1.0 / ntot), 'lnntot': to_dec(math.log(ntot)),
          'lnn': [to_dec(math.log(x)) for x in n], 'inv': [to_dec(1.0 / x) for x in n],
          'B': B, 'piv': piv, 'rows': mrows, 'cols': mcols,
          'depc': dep, 'fzc': fz, 'nm': []}
    for nu in B:
        r0 = residual(nu, n, g, lnP)
        d = -1 if r0 > 0 else 1
        mx = max(abs(v) for v in nu)
        step = EPS_NEAR * ntot / mx
        nd = [n[i] + d * nu[i] * step for i in range(N)]
        feas = all(nd[i] > 1e-3 * n[i] for i in range(N) if d * nu[i] < 0)
        rec = {'dir': d, 'step': to_dec(step), 'feas': bool(feas)}
        if feas:
            ndtot = math.fsum(nd)
            rec['nd'] = [to_dec(x) for x in nd]
            rec['lnd'] = [to_dec(math.log(x)) for x in nd]
            rec['ndtot'] = to_dec(ndtot)
            rec['lndtot'] = to_dec(math.log(ndtot))
        ev['nm'].append(rec)
    return ev


def well_conditioned(n, tau=1e-6):
    ntot = math.fsum(n)
    return all(x >= tau * ntot for x in n)
