"""Helpers of the C16 driver (equilibrium compositions).

Nothing here judges the library: these functions build inputs (NASA-7 species,
networks, feeds), observe one call of the real code (recording wrapper around
scipy's minimize, warnings, exceptions) and PROPOSE certificates (reaction
vectors, rank minors, degeneracy combinations, displaced compositions, ln / 1/x
sensors) that spec/Trace_Equilibrium.tla verifies before it uses them.
"""
import itertools
import math
import random
import re
import warnings
from fractions import Fraction

from harness.core import to_dec, to_dec_exact, MachineryError

ELEMENTS = ('C', 'H', 'O', 'N')
BAR_PER_ATM = 1.01325
EPS_NEAR = 1e-2          # must equal Eps of Trace_Equilibrium.tla
THERMDAT = 'pmutt/tests/equilibrium/thermdat_equilibrium_unittest.txt'

# warnings that are not statements about the solver's outcome (floating point
# noise inside the objective, scipy's bound-clipping notice the module itself filters)
_NOT_A_SIGNAL = re.compile(r'(invalid value|divide by zero|overflow|underflow) encountered'
                           r'|Values in x were outside bounds')


# --------------------------------------------------------------------------
# exact integer linear algebra (proposals only; TLC verifies CertOK)
# --------------------------------------------------------------------------
def null_basis(rows, order=None):
    """rows: species x elements integer matrix.  Returns (B, piv, minor_rows, minor_cols):
    integer reaction vectors in pivot form (vector j owns coordinate piv[j]), and the
    rows/cols (1-based) of a non-singular minor of size rank.  `order` (species indices,
    most abundant first) decides which species become pivots of the elimination, so the
    free species (those that own a basis vector) are the least abundant ones."""
    n = len(rows)
    m = len(rows[0]) if n else 0
    order = list(order) if order is not None else list(range(n))
    A = [[Fraction(rows[order[c]][j]) for c in range(n)] for j in range(m)]   # E^T, columns permuted
    eq_of_row = list(range(m))
    piv_cols, piv_eqs = [], []
    r = 0
    for c in range(n):
        p = next((i for i in range(r, m) if A[i][c] != 0), None)
        if p is None:
            continue
        A[r], A[p] = A[p], A[r]
        eq_of_row[r], eq_of_row[p] = eq_of_row[p], eq_of_row[r]
        pv = A[r][c]
        A[r] = [x / pv for x in A[r]]
        for i in range(m):
            if i != r and A[i][c] != 0:
                f = A[i][c]
                A[i] = [x - f * y for x, y in zip(A[i], A[r])]
        piv_cols.append(c)
        r += 1
        if r == m:
            break
    free = [c for c in range(n) if c not in piv_cols]
    B, piv = [], []
    for f in free:
        v = [Fraction(0)] * n
        v[f] = Fraction(1)
        for i, c in enumerate(piv_cols):
            v[c] = -A[i][f]
        den = 1
        for x in v:
            den = den * x.denominator // math.gcd(den, x.denominator)
        vec = [0] * n
        for c in range(n):
            vec[order[c]] = int(v[c] * den)
        B.append(vec)
        piv.append(order[f] + 1)
    # a non-singular minor: pivot species x a set of independent element columns
    mrows = [order[c] for c in piv_cols]
    mcols = _independent_columns([rows[i] for i in mrows], len(mrows))
    return B, piv, [i + 1 for i in mrows], [j + 1 for j in mcols]


def _independent_columns(sub, r):
    m = len(sub[0]) if sub else 0
    for cols in itertools.combinations(range(m), r):
        if _det([[Fraction(row[j]) for j in cols] for row in sub]) != 0:
            return list(cols)
    if r == 0:
        return []
    raise MachineryError('no non-singular minor found')


def _det(a):
    a = [list(r) for r in a]
    n = len(a)
    d = Fraction(1)
    for c in range(n):
        p = next((i for i in range(c, n) if a[i][c] != 0), None)
        if p is None:
            return Fraction(0)
        if p != c:
            a[c], a[p] = a[p], a[c]
            d = -d
        d *= a[c][c]
        for i in range(c + 1, n):
            f = a[i][c] / a[c][c]
            a[i] = [x - f * y for x, y in zip(a[i], a[c])]
    return d


def degeneracy_certificates(rows, fed, R=4):
    """Integer combinations c of the element balances: (dep, fz).  dep: every species
    weight E_i.c is zero (dependent balances).  fz: weights >= 0, zero on every fed
    species, positive on as many species as possible (those species are forced to zero).
    c is searched in the integer null space of the fed rows (coefficients -R..R on its
    basis).  TLC verifies whatever is proposed (EqLin!DependentElements / ForcedZero)."""
    n = len(rows)
    m = len(rows[0])
    cols = [[rows[i][j] for i in range(n)] for j in range(m)]            # elements x species
    depB = null_basis(cols)[0]
    dep = depB[0] if depB else []
    fed_idx = [i for i in range(n) if fed[i]]
    if fed_idx:
        basis = null_basis([[rows[i][j] for i in fed_idx] for j in range(m)])[0]
    else:
        basis = [[1 if a == b else 0 for b in range(m)] for a in range(m)]
    fz, best = [], 0
    for co in itertools.product(range(-R, R + 1), repeat=len(basis)):
        if not any(co):
            continue
        c = [sum(co[b] * basis[b][j] for b in range(len(basis))) for j in range(m)]
        w = [sum(rows[i][j] * c[j] for j in range(m)) for i in range(n)]
        if min(w) >= 0:
            cnt = sum(1 for x in w if x > 0)
            if cnt > best or (cnt == best and cnt and sum(map(abs, c)) < sum(map(abs, fz))):
                best, fz = cnt, c
    return dep, fz


# --------------------------------------------------------------------------
# species, networks
# --------------------------------------------------------------------------
def nasa_coeffs(rnd, g_target, T):
    """NASA-7 coefficients (one polynomial for both ranges) whose G/RT at T is g_target."""
    a1 = round(rnd.uniform(2.5, 12.0), 3)
    a2 = round(rnd.uniform(-2e-3, 6e-3), 6)
    a3 = round(rnd.uniform(-2e-6, 2e-6), 9)
    a7 = round(rnd.uniform(-10.0, 30.0), 3)
    rest = a1 * (1.0 - math.log(T)) - a2 * T / 2.0 - a3 * T * T / 6.0 - a7
    a6 = float('%.9g' % (T * (g_target - rest)))
    return [a1, a2, a3, 0.0, 0.0, a6, a7]


def make_species(spec):
    from pmutt.empirical.nasa import Nasa
    out = []
    for s in spec:
        out.append(Nasa(name=s['name'], T_low=200.0, T_mid=1000.0, T_high=3000.0,
                        a_low=list(s['a']), a_high=list(s['a']),
                        elements={k: v for k, v in s['formula'].items() if v}))
    return out


def random_case(rnd, cid, wellcond=False):
    nel = rnd.choice([1, 2, 2, 3, 3, 4])
    els = rnd.sample(ELEMENTS, nel)
    ns = rnd.randint(2, 6) if wellcond else rnd.randint(2, 12)
    forms = []
    for _ in range(400):
        f = {e: rnd.choice([0, 0, 1, 1, 2, 3, 4]) for e in els}
        if sum(f.values()) and f not in forms:
            forms.append(f)
        if len(forms) == ns:
            break
    # every element must occur in some species
    for e in els:
        if not any(f[e] for f in forms):
            forms[rnd.randrange(len(forms))][e] = 1
    T = rnd.choice([300.0, 500.0, 1000.0, 1500.0, 2500.0, round(rnd.uniform(300.0, 2500.0), 1)])
    Ps = [rnd.choice([0.01, 1.0, 100.0, float('%.3g' % 10 ** rnd.uniform(-2, 2))])]
    if rnd.random() < 0.3:
        Ps.append(rnd.choice([0.01, 0.1, 1.0, 10.0, 100.0]))
    span = rnd.choice([0.5, 1.0, 3.0]) if wellcond else rnd.choice([1.0, 5.0, 20.0, 60.0])
    base = rnd.uniform(-100.0, 40.0)
    spec = []
    for i, f in enumerate(forms):
        g = base + rnd.uniform(0.0, span) * (1.0 - 1e-9)
        spec.append({'name': 'S%d' % i, 'formula': f, 'a': nasa_coeffs(rnd, g, T)})
    if wellcond:
        feed = [rnd.choice([0.5, 1.0, 1.5, 2.0]) for _ in forms]
    else:
        feed = [rnd.choice([0.0, 0.0, 1.0, 0.5, 2.0, round(rnd.uniform(0.05, 3.0), 2)]) for _ in forms]
        for e in els:
            if not any(feed[i] > 0 and forms[i][e] for i in range(len(forms))):
                cand = [i for i in range(len(forms)) if forms[i][e]]
                feed[rnd.choice(cand)] += 1.0
    perm = list(range(len(forms)))
    rnd.shuffle(perm)
    return {'cid': cid, 'kind': 'wellcond' if wellcond else 'rand', 'elements': els,
            'species': spec, 'feed': feed, 'points': [[T, P] for P in Ps], 'perm': perm}


ALPHABET_NAMES = ['H2', 'O2', 'H2O', 'CO', 'CO2', 'CH4', 'C2H2', 'C6H6', 'O3', 'H']


def tlc_case(rnd, cid, c):
    """A network generated by TLC (MC_EqCases.tla) dressed with NASA-7 species."""
    allels = ['C', 'H', 'O']
    els = [allels[j - 1] for j in c['els']]
    T = rnd.choice([500.0, 1000.0, 1500.0, 2000.0])
    P = rnd.choice([0.1, 1.0, 10.0])
    base = rnd.uniform(-40.0, 10.0)
    spec = []
    for i, row in enumerate(c['E']):
        g = base + rnd.uniform(0.0, 8.0)
        spec.append({'name': ALPHABET_NAMES[c['sp'][i] - 1],
                     'formula': {e: int(v) for e, v in zip(els, row)},
                     'a': nasa_coeffs(rnd, g, T)})
    perm = list(range(len(spec)))
    rnd.shuffle(perm)
    return {'cid': cid, 'kind': 'tlc', 'elements': els, 'species': spec,
            'feed': [float(v) for v in c['feed']], 'points': [[T, P]], 'perm': perm,
            'expect': {'E': c['E'], 'tot': c['tot'], 'k': c['k'], 'dep': c['dep'], 'fz': c['fz']}}


# --------------------------------------------------------------------------
# observing one call
# --------------------------------------------------------------------------
class Recorder:
    """Rebinds pmutt.equilibrium._equilibrium.minimize inside this process: records the
    OptimizeResult of every solve; with force_fail the real solver is run with an
    iteration limit of 1 (a genuine failure of the genuine solver)."""

    def __init__(self):
        import pmutt.equilibrium._equilibrium as mod
        import scipy.optimize
        self.mod = mod
        self.real = scipy.optimize.minimize
        self.results = []
        self.force_fail = False
        mod.minimize = self._wrapped

    def _wrapped(self, *a, **k):
        if self.force_fail:
            k = dict(k)
            opts = dict(k.get('options') or {})
            opts['maxiter'] = 1
            k['options'] = opts
        res = self.real(*a, **k)
        self.results.append(res)
        return res

    def restore(self):
        self.mod.minimize = self.real


def observe_call(rec, fn, force_fail=False):
    """Run fn() (one library call).  Returns dict(out, status, how, sig, result, exc, msgs)."""
    rec.results.clear()
    rec.force_fail = force_fail
    result, exc = None, None
    with warnings.catch_warnings(record=True) as w:
        warnings.simplefilter('always')
        try:
            result = fn()
        except BaseException as ex:            # sys.exit() in the library is an exception too
            if isinstance(ex, KeyboardInterrupt):
                raise
            exc = ex
    rec.force_fail = False
    msgs = [str(x.message) for x in w if not _NOT_A_SIGNAL.search(str(x.message))]
    if rec.results:
        last = rec.results[-1]
        out = 'converged' if bool(last.success) else 'failed'
        status = int(last.status)
    else:
        out, status = 'nosolve', -1
    return {'out': out, 'status': status, 'how': 'raise' if exc is not None else 'return',
            'sig': bool(msgs), 'result': result,
            'exc': None if exc is None else '%s: %s' % (type(exc).__name__, exc),
            'msgs': msgs[:3]}


# --------------------------------------------------------------------------
# projections and proposals for one returned composition
# --------------------------------------------------------------------------
def _finite(xs):
    return all(isinstance(x, (int, float)) and math.isfinite(x) for x in xs)


def residual(nu, n, g, lnP):
    ntot = math.fsum(n)
    return math.fsum(v * (g[i] + math.log(n[i]) + lnP - math.log(ntot))
                     for i, v in enumerate(nu) if v)


def numeric_fields(E, fed, n, frac, g, T, P):
    """Everything Trace_Equilibrium.tla needs to judge a returned composition n (canonical
    species order).  All ln / reciprocal values are computed here from the logged numbers."""
    N = len(n)
    ntot = math.fsum(n)
    Pbar = P * BAR_PER_ATM
    lnP = math.log(Pbar)
    order = sorted(range(N), key=lambda i: -n[i])
    B, piv, mrows, mcols = null_basis(E, order)
    dep, fz = degeneracy_certificates(E, fed)
    ev = {'num': True,
          'n': [to_dec(x) for x in n], 'frac': [to_dec(x) for x in frac],
          'g': [to_dec(x) for x in g],
          'Pbar': to_dec(Pbar), 'lnP': to_dec(lnP),
          'ntot': to_dec(ntot), 'invtot': to_dec(1.0 / ntot), 'lnntot': to_dec(math.log(ntot)),
          'lnn': [to_dec(math.log(x)) for x in n], 'inv': [to_dec(1.0 / x) for x in n],
          'B': B, 'piv': piv, 'rows': mrows, 'cols': mcols,
          'depc': dep, 'fzc': fz, 'nm': []}
    for nu in B:
        r0 = residual(nu, n, g, lnP)
        d = -1 if r0 > 0 else 1
        mx = max(abs(v) for v in nu)
        step = EPS_NEAR * ntot / mx
        nd = [n[i] + d * nu[i] * step for i in range(N)]
        feas = all(nd[i] > 1e-3 * n[i] for i in range(N) if d * nu[i] < 0)
        rec = {'dir': d, 'step': to_dec(step), 'feas': bool(feas)}
        if feas:
            ndtot = math.fsum(nd)
            rec['nd'] = [to_dec(x) for x in nd]
            rec['lnd'] = [to_dec(math.log(x)) for x in nd]
            rec['ndtot'] = to_dec(ndtot)
            rec['lndtot'] = to_dec(math.log(ndtot))
        ev['nm'].append(rec)
    return ev


def well_conditioned(n, tau=1e-6):
    ntot = math.fsum(n)
    return all(x >= tau * ntot for x in n)
