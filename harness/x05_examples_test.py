"""X05 - a tiny test module that drives the objects of pmutt/examples.py (the library's own worked
example: a NASA-7 species, a Shomate species, two referenced StatMech species and a reaction with
a transition state) the way the repository's tests drive theirs.  It asserts nothing but
finiteness: the recorder (harness/suite_recorder.py) observes the calls and the trace
specifications judge the re-evaluations.  Collected only by harness/drivers/x05.py."""
import math

import numpy as np

from pmutt import examples as ex

TEMPS = (298.15, 400., 650., 990.)


def _finite(x):
    assert all(math.isfinite(v) for v in np.atleast_1d(x))


def test_examples_species_scalar():
    for T in TEMPS:
        _finite(ex.H2O_statmech.get_GoRT(T=T))
        _finite(ex.H2O_TS_statmech.get_HoRT(T=T, P=2.))
        _finite(ex.O2_nasa.get_CpoR(T=T))
        _finite(ex.H2_shomate.get_SoR(T=T))


def test_examples_species_array_and_pressure():
    T = np.array([300., 500., 700., 900.])
    _finite(ex.O2_nasa.get_GoRT(T=T, P=5.))
    _finite(ex.H2_shomate.get_HoRT(T=T))
    _finite(ex.H2_shomate.get_GoRT(T=500., P=10.))
    _finite(ex.H2O_TS_statmech.get_FoRT(T=700., P=0.1))
    _finite(ex.O2_nasa.get_SoR(T=1500., S_elements=True))
    _finite(ex.H2O_statmech.get_SoR(T=350., P=0.2, use_references=False))
    _finite(ex.H2O_statmech.get_q(T=350., include_ZPE=False))


def test_examples_reaction():
    for T in (300., 500., 900.):
        _finite(ex.rxn.get_delta_GoRT(T=T))
        _finite(ex.rxn.get_GoRT_act(T=T, P=3.))
    _finite(ex.rxn.get_delta_HoRT(T=500., rev=True, O2_kwargs={'T': 700.}))
    _finite(ex.rxn.get_SoR_state(state='reactants', T=450., P=0.5, H2_kwargs={'P': 4.}))
